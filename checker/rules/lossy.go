package rules

import (
	"fmt"
	"go/ast"
	"go/constant"
	"go/token"
	"go/types"
	"reflect"
	"sort"
	"strconv"
	"strings"

	"golang.org/x/tools/go/packages"

	"verif/checker/eng"
)

// lossyFuncs rewrite a string so that the original cannot be recovered (or,
// for the escapers, so that the encoder's own escaping is applied twice).
var lossyFuncs = map[string]bool{
	"strings.TrimSpace": true, "strings.Trim": true, "strings.TrimLeft": true, "strings.TrimRight": true,
	"strings.TrimPrefix": true, "strings.TrimSuffix": true, "strings.TrimFunc": true,
	"strings.ToLower": true, "strings.ToUpper": true, "strings.Title": true, "strings.ToTitle": true,
	"strings.Replace": true, "strings.ReplaceAll": true, "strings.Fields": true, "strings.Map": true,
	"bytes.TrimSpace": true, "bytes.Trim": true, "bytes.ToLower": true, "bytes.ToUpper": true,
	"encoding/xml.EscapeText": true, "encoding/xml.Escape": true, "html.EscapeString": true, "net/url.QueryEscape": true,
	// an address written without its resourcepart (or without its localpart)
	// is decoded as a different address
	"jid.JID.Bare": true, "jid.JID.Domain": true,
}

// lossyEmission (E-taint): in the encoders (TokenReader, Wrap, WriteXML,
// MarshalXML, MarshalXMLAttr, StartElement and the closures inside them) the
// text handed to xml.CharData(...) and to the Value of an xml.Attr literal is
// the field's value as it is: no string-rewriting function lies on the
// definition chain between a field and the emission. The decoder hands back
// what was written, so a trimmed, case-folded or pre-escaped copy does not
// round-trip.
func lossyEmission(c *cx, id string, in func(f *eng.Fn) bool) int {
	n := 0
	isEnc := func(f *eng.Fn) bool {
		for x := f; x != nil; x = x.Parent {
			if x.Obj != nil {
				switch x.Obj.Name() {
				case "TokenReader", "Wrap", "WriteXML", "MarshalXML", "MarshalXMLAttr", "StartElement":
					return in(x)
				}
				if strings.HasPrefix(x.Obj.Name(), "Marshal") {
					return in(x)
				}
				return false
			}
		}
		return false
	}
	for _, f := range c.allFns() {
		if f.Body == nil || !isEnc(f) {
			continue
		}
		g := f.Graph()
		var sinks []ast.Expr
		f.WalkBody(func(nd ast.Node) bool {
			switch x := nd.(type) {
			case *ast.CallExpr:
				if len(x.Args) == 1 {
					if tv, ok := f.Info().Types[x.Fun]; ok && tv.IsType() && eng.TypeStr(tv.Type) == "encoding/xml.CharData" {
						sinks = append(sinks, x.Args[0])
					}
				}
			case *ast.CompositeLit:
				if t := f.Info().TypeOf(x); t != nil && eng.TypeStr(t) == "encoding/xml.Attr" {
					if v := structLitField(x, "Value"); v != nil {
						sinks = append(sinks, v)
					}
				}
			}
			return true
		})
		for _, sk := range sinks {
			n++
			found := map[string]bool{}
			seen := map[ast.Node]bool{}
			var walk func(fn *eng.Fn, e ast.Expr, depth int)
			walk = func(fn *eng.Fn, e ast.Expr, depth int) {
				if e == nil || depth > 8 || seen[e] {
					return
				}
				seen[e] = true
				ast.Inspect(e, func(x ast.Node) bool {
					switch y := x.(type) {
					case *ast.FuncLit:
						return false
					case *ast.CallExpr:
						if lossyFuncs[fn.CalleeID(y)] {
							found[fn.CalleeID(y)] = true
						}
					case *ast.Ident:
						v, ok := fn.Info().ObjectOf(y).(*types.Var)
						if !ok || !eng.IsLocal(v) {
							return true
						}
						// definitions in this function or, for captured variables, in the enclosing ones
						for df := fn; df != nil; df = df.Parent {
							for _, d := range df.Graph().DefsOf(v) {
								if d.RHS != nil {
									walk(df, d.RHS, depth+1)
								}
							}
						}
					}
					return true
				})
			}
			walk(f, sk, 0)
			var names []string
			for k := range found {
				names = append(names, k)
			}
			sort.Strings(names)
			pt, _ := g.Where(sk)
			c.r.Check(id, f, "emitted text "+f.Norm(sk, &pt), "E-taint: no string-rewriting call (trim, case folding, replace, pre-escaping) between a value and its emission as character data or attribute value", sk.Pos(), len(names) == 0, "the emitted text passes through "+strings.Join(names, ", ")+": the decoded value differs from the encoded one")
		}
	}
	return n
}

// c19BlankLines (C19.13): a text-multi value is written one <value/> per line,
// so an empty string in the value list is a blank line of the text. The
// encoder's "skip empty values" shortcut must not apply to that type: every
// edge that leaves an iteration of the value loop because the value is empty
// also establishes that the field is not text-multi.
func c19BlankLines(c *cx, id string) {
	f := c.fn(id, "form", "(*field).TokenReader")
	if f == nil {
		return
	}
	g := f.Graph()
	n := 0
	for _, ce := range g.EdgesMatching(`eq(rangeval(recv.value),"")`) {
		n++
		has := false
		for _, a := range ce.Atoms {
			if a.S == "!eq(recv.typ,form.TypeTextMulti)" {
				has = true
			}
		}
		if !has {
			// or dominated by it already
			src := eng.Point{B: ce.E.B, I: len(g.Blocks[ce.E.B].Nodes)}
			has, _ = g.Dominated(src, "!eq(recv.typ,form.TypeTextMulti)")
		}
		pos := f.Pos()
		if nodes := g.Blocks[ce.E.B].Nodes; len(nodes) > 0 {
			pos = nodes[len(nodes)-1].Pos()
		}
		c.r.Check(id, f, "empty value skipped", "G: an empty value is dropped only for field types other than text-multi (there it is a blank line of the text and must round-trip)", pos, has, "blank lines of a multi-line text are dropped by the encoder")
	}
	c.r.Floor(id, "empty-value tests in the field encoder", n, 1)
}

// parsedIntTruncation (E-trunc): a number parsed from text with
// strconv.ParseUint/ParseInt is converted to a narrower integer type only if
// the parse itself was bounded to that width (bitSize argument): otherwise
// "257" silently becomes 1.
func parsedIntTruncation(c *cx, id string, in func(f *eng.Fn) bool) int {
	n := 0
	bits := func(t types.Type) int {
		b, ok := t.Underlying().(*types.Basic)
		if !ok {
			return 0
		}
		switch b.Kind() {
		case types.Int8, types.Uint8:
			return 8
		case types.Int16, types.Uint16:
			return 16
		case types.Int32, types.Uint32:
			return 32
		case types.Int64, types.Uint64:
			return 64
		case types.Int, types.Uint:
			return 32 // the narrower of the supported platforms
		}
		return 0
	}
	for _, f := range c.allFns() {
		if f.Body == nil || !in(f) {
			continue
		}
		g := f.Graph()
		f.WalkBody(func(nd ast.Node) bool {
			cl, ok := nd.(*ast.CallExpr)
			if !ok || len(cl.Args) != 1 {
				return true
			}
			tv, ok := f.Info().Types[cl.Fun]
			if !ok || !tv.IsType() {
				return true
			}
			tb := bits(tv.Type)
			if tb == 0 {
				return true
			}
			idn, ok := ast.Unparen(cl.Args[0]).(*ast.Ident)
			if !ok {
				return true
			}
			v, _ := f.Info().ObjectOf(idn).(*types.Var)
			pt, okp := g.Where(cl)
			if v == nil || !okp {
				return true
			}
			for _, d := range g.ReachingDefs(v, pt) {
				call, _ := d.RHS.(*ast.CallExpr)
				if call == nil || d.Index != 0 {
					continue
				}
				cid := f.CalleeID(call)
				if cid != "strconv.ParseUint" && cid != "strconv.ParseInt" || len(call.Args) != 3 {
					continue
				}
				n++
				bs, isConst := f.ConstInt(call.Args[2])
				okw := isConst && bs != 0 && int(bs) <= tb
				c.r.Check(id, f, "parsed number narrowed to "+eng.TypeStr(tv.Type), "E-trunc: the bitSize of the parse is a constant not larger than the width of the type the result is converted to", cl.Pos(), okw, fmt.Sprintf("parsed with bitSize %d and converted to a %d-bit type: larger numbers are truncated instead of refused", bs, tb))
			}
			return true
		})
	}
	return n
}

// decodedEntryAppended (list agreement): where a decoder fills a slice field
// of its receiver from a temporary it has just decoded (recv.F = append(recv.F,
// ... t ...)), every element decoded this way adds an entry: from the
// nil-error edge of the DecodeElement into t every path to the next element
// (or to a return) passes that append, and nothing writes an existing entry
// from t (recv.F[i] = ..., "replace" semantics). The encoders write one
// element per entry; a decoder that merges entries does not give back what
// was encoded.
func decodedEntryAppended(c *cx, id string, in func(f *eng.Fn) bool) int {
	n := 0
	for _, f := range c.allFns() {
		if f.Body == nil || f.Obj == nil || !in(f) || !strings.HasPrefix(f.Obj.Name(), "UnmarshalXML") {
			continue
		}
		g := f.Graph()
		for _, cl := range f.Calls("encoding/xml.Decoder.DecodeElement") {
			tgt := ast.Unparen(cl.Args[0])
			if u, ok := tgt.(*ast.UnaryExpr); ok && u.Op == token.AND {
				tgt = ast.Unparen(u.X)
			}
			tid, ok := tgt.(*ast.Ident)
			if !ok {
				continue
			}
			tv := f.Info().ObjectOf(tid)
			mentionsT := func(x ast.Node) bool {
				found := false
				ast.Inspect(x, func(y ast.Node) bool {
					if idn, ok := y.(*ast.Ident); ok && f.Info().ObjectOf(idn) == tv {
						found = true
					}
					return !found
				})
				return found
			}
			// appends of t to a slice field of the receiver
			var appends []ast.Node
			var field string
			for _, w := range f.Writes() {
				if w.RHS == nil || !mentionsT(w.RHS) {
					continue
				}
				lhs := f.Norm(w.LHS, nil)
				if !strings.HasPrefix(lhs, "recv.") {
					continue
				}
				if call, ok := ast.Unparen(w.RHS).(*ast.CallExpr); ok && f.CalleeID(call) == "builtin.append" && len(call.Args) >= 2 && f.Norm(call.Args[0], nil) == lhs {
					appends = append(appends, w.Stmt)
					field = lhs
				}
			}
			if len(appends) == 0 {
				// no append from t: an element-wise store from t into a list of the
				// receiver is the "merge" form of the same defect
				for _, w := range f.Writes() {
					lhs := f.Norm(w.LHS, nil)
					if w.RHS != nil && mentionsT(w.RHS) && strings.HasPrefix(lhs, "recv.") && strings.Contains(lhs, "[") {
						n++
						c.r.Check(id, f, "entry of "+lhs[:strings.Index(lhs, "[")]+" per decoded element", "O: every element decoded into the temporary adds one entry to the list (the encoder writes one element per entry)", w.Stmt.Pos(), false, "an existing entry is overwritten from the decoded element ("+c.p.NodeStr(w.Stmt)+"): entries are merged instead of appended")
						break
					}
				}
				continue
			}
			n++
			cpt, _ := g.Where(cl)
			cn := f.Norm(cl, &cpt)
			isApp := func(q eng.Point, nd ast.Node) bool {
				for _, a := range appends {
					if nd == a {
						return true
					}
				}
				return false
			}
			bad := ""
			for _, ce := range g.EdgesMatching("eq(" + cn + ",nil)") {
				from := g.EdgeTarget(ce.E)
				// to the next DecodeElement/Token read or to a return without the append
				for _, rs := range g.Returns {
					rp, _ := g.Where(rs)
					if g.RetKindOf(rs) != eng.RetError && g.Reachable(from, rp, nil, isApp) {
						bad = "a decoded element can reach the return at " + c.p.Pos(rs.Pos()) + " without being appended to " + field
					}
				}
				if g.Reachable(from, cpt, nil, isApp) {
					bad = "a decoded element can be followed by the next one without having been appended to " + field
				}
			}
			// no element-wise store from t
			for _, w := range f.Writes() {
				if w.RHS != nil && mentionsT(w.RHS) && strings.HasPrefix(f.Norm(w.LHS, nil), field+"[") {
					bad = "an existing entry of " + field + " is overwritten from the decoded element (" + c.p.NodeStr(w.Stmt) + "): entries are merged instead of appended"
				}
			}
			c.r.Check(id, f, "entry of "+field+" per decoded element", "O: every element decoded into the temporary adds one entry to the list (the encoder writes one element per entry)", cl.Pos(), bad == "", bad)
		}
	}
	return n
}

// qualifiedNamesStructured: an xml.Name built by an encoder carries its
// namespace in Space: a Local that contains a colon ("xml:lang") prints the
// same bytes through an Encoder, but as a TOKEN it is an unqualified attribute
// with an odd name: a consumer of the token stream (xml.NewTokenDecoder, the
// multiplexer, xmlstream transformers) does not see the xml:lang the decoder's
// struct tag names. Both encodings of a value then decode differently.
func qualifiedNamesStructured(c *cx, id string, in func(f *eng.Fn) bool) int {
	n := 0
	for _, f := range c.allFns() {
		if f.Body == nil || !in(f) {
			continue
		}
		for _, cl := range f.WalkLits("encoding/xml.Name") {
			lv := structLitField(cl, "Local")
			if lv == nil {
				continue
			}
			sv, ok := f.ConstStr(lv)
			if !ok {
				continue
			}
			n++
			c.r.Check(id, f, "name literal "+sv, "K: the Local of an xml.Name literal holds no prefix (namespaces go into Space)", cl.Pos(), !strings.Contains(sv, ":"), "Local \""+sv+"\" hard-codes a prefix: the token is an unqualified name, not the namespaced one the decoder expects")
		}
	}
	return n
}

// emissionGatedBySibling: in an encoder, the value of a receiver field F is
// written under presence tests of F itself (or unconditionally, or under a
// disjunction that includes F's own presence): a dominating fact that is a
// plain presence test of ANOTHER field G (G != "", len(G) > 0, G != nil) and
// does not mention F makes F's emission depend on G being set: a value with F
// but without G loses F on the round trip.
// gatedExempt: field F is by its meaning an attribute OF field G's element.
var gatedExempt = map[string]string{
	"internal/saslerr.Error.TokenReader|Lang|Text": "Lang is the xml:lang of the <text/> element: without a text there is no element to carry it",
}

func emissionGatedBySibling(c *cx, id string, in func(f *eng.Fn) bool) int {
	n := 0
	presenceOf := func(atom string) string {
		// returns the receiver field a plain presence atom tests, or ""
		for _, pre := range []string{`!eq(recv.`, `lt(0,builtin.len(recv.`} {
			if strings.HasPrefix(atom, pre) {
				rest := atom[len(pre):]
				end := strings.IndexAny(rest, ",)[.")
				if end > 0 {
					fld := rest[:end]
					tail := rest[end:]
					if pre == `!eq(recv.` && (tail == `,"")` || tail == `,nil)`) {
						return fld
					}
					if pre != `!eq(recv.` && tail == `))` {
						return fld
					}
				}
			}
		}
		return ""
	}
	for _, f := range c.allFns() {
		if f.Body == nil || f.Obj == nil || !in(f) {
			continue
		}
		switch f.Obj.Name() {
		case "TokenReader", "WriteXML", "MarshalXML", "Wrap":
		default:
			continue
		}
		g := f.Graph()
		f.WalkBody(func(nd ast.Node) bool {
			sel, ok := nd.(*ast.SelectorExpr)
			if !ok {
				return true
			}
			x := f.Norm(sel, nil)
			if !strings.HasPrefix(x, "recv.") || strings.Count(x, ".") != 1 {
				return true
			}
			if s := f.Info().Selections[sel]; s == nil || s.Kind() != types.FieldVal {
				return true
			}
			fld := strings.TrimPrefix(x, "recv.")
			pt, okp := g.Where(sel)
			if !okp {
				return true
			}
			// only uses that are not themselves part of a condition
			if _, isCond := g.Blocks[pt.B].Nodes[pt.I].(ast.Expr); isCond {
				return true
			}
			n++
			bad := ""
			for _, a := range g.FactsAt(pt) {
				if other := presenceOf(a); other != "" && other != fld {
					if _, ok := gatedExempt[f.Short+"|"+fld+"|"+other]; ok {
						continue
					}
					bad = "the use of " + x + " is dominated by the presence test " + a + " of another field: a value that has " + fld + " but not " + other + " is encoded without " + fld
				}
			}
			c.r.Check(id, f, "use of "+x, "G: no plain presence test of another receiver field dominates the use of a field's value in an encoder", sel.Pos(), bad == "", bad)
			return true
		})
	}
	return n
}

// attrMarshalersByValue: a struct field with an `attr` tag whose type has its
// MarshalXMLAttr on the POINTER receiver only is encoded through that method
// when the struct is addressable (xml.Marshal(&v)) and through reflection on
// the underlying kind when it is not (xml.Marshal(v): an enum is written as a
// number). The two encodings of one value differ, and the decoder of the type
// rejects the second. The method must be in the value method set of the
// field's type.
func attrMarshalersByValue(c *cx, id string, pkgs []string) int {
	n := 0
	for _, pk := range c.p.All {
		ok := false
		for _, rel := range pkgs {
			if pk.PkgPath == eng.ModPath+"/"+strings.TrimSuffix(rel, ".") {
				ok = true
			}
		}
		if !ok || pk.Types == nil {
			continue
		}
		sc := pk.Types.Scope()
		for _, name := range sc.Names() {
			tn, isT := sc.Lookup(name).(*types.TypeName)
			if !isT {
				continue
			}
			st, isS := tn.Type().Underlying().(*types.Struct)
			if !isS {
				continue
			}
			for i := 0; i < st.NumFields(); i++ {
				fld := st.Field(i)
				if !strings.Contains(st.Tag(i), ",attr") {
					continue
				}
				ft, isN := fld.Type().(*types.Named)
				if !isN {
					continue
				}
				has := func(t types.Type) bool {
					ms := types.NewMethodSet(t)
					for j := 0; j < ms.Len(); j++ {
						if ms.At(j).Obj().Name() == "MarshalXMLAttr" {
							return true
						}
					}
					return false
				}
				if !has(types.NewPointer(ft)) {
					continue
				}
				n++
				c.r.CheckNamed(id, strings.TrimPrefix(pk.PkgPath, eng.ModPath+"/")+"."+tn.Name(), "attribute field "+fld.Name()+" ("+eng.TypeStr(ft)+")", "T: the attribute marshaler of a by-value field is in the value method set of the field's type", fld.Pos(), has(ft), "MarshalXMLAttr of "+eng.TypeStr(ft)+" has a pointer receiver: xml.Marshal of a non-addressable "+tn.Name()+" writes the field through reflection (a number for an enum), which the type's own decoder rejects")
			}
		}
	}
	return n
}

// emptyContentAccepted (E-dec4): a decoder that takes the token after a start
// element and insists on character data (v, ok := tok.(xml.CharData); !ok ->
// error) refuses the element's own end tag, i.e. an EMPTY element. The encoders
// write no character data for an empty value (base64 of no bytes, an empty
// string), so the type's own output for that value does not decode. From the
// !ok edge of such an assertion an error return is reachable only past a test
// for xml.EndElement.
func emptyContentAccepted(c *cx, id string, in func(f *eng.Fn) bool) int {
	n := 0
	for _, f := range c.allFns() {
		if f.Body == nil || f.Obj == nil || !in(f) || !strings.HasPrefix(f.Obj.Name(), "UnmarshalXML") {
			continue
		}
		g := f.Graph()
		// was the end tag told apart before? (a type test for xml.EndElement
		// anywhere on the way to the assertion or behind it)
		testsEnd := func(q eng.Point, nd ast.Node) bool {
			found := false
			ast.Inspect(nd, func(x ast.Node) bool {
				if ta, ok := x.(*ast.TypeAssertExpr); ok && ta.Type != nil {
					if t := f.Info().TypeOf(ta.Type); t != nil && eng.TypeStr(t) == "encoding/xml.EndElement" {
						found = true
					}
				}
				return !found
			})
			return found
		}
		for _, ce := range g.EdgesMatching("!commaok(*.(encoding/xml.CharData))") {
			n++
			from := g.EdgeTarget(ce.E)
			src := eng.Point{B: ce.E.B, I: 0}
			handled := g.MustPassBefore(g.Entry(), src, testsEnd, nil)
			bad := ""
			if !handled {
				for _, rs := range g.Returns {
					rp, _ := g.Where(rs)
					if g.RetKindOf(rs) == eng.RetError && g.Reachable(from, rp, nil, func(q eng.Point, nd ast.Node) bool {
						if testsEnd(q, nd) {
							return true
						}
						// the next read: errors behind it are about other tokens
						for _, m := range []string{"*.Token", "*.Next", "*.DecodeElement", "*.Decode", "*.Skip"} {
							if f.ContainsCall(nd, m) != nil {
								return true
							}
						}
						return false
					}) {
						bad = "the token after the start element must be character data or the decoder fails (return at " + c.p.Pos(rs.Pos()) + "): an empty element, which is what the encoder writes for an empty value, is refused"
					}
				}
			}
			c.r.Check(id, f, "empty element accepted where character data is expected", "E-dec4: the failure edge of a CharData assertion leads to an error only after the element's own end tag was told apart", f.Pos(), bad == "", bad)
		}
	}
	return n
}

// namespacedDecodeTargets (E-dec5): inside a decoder that walks the children
// of its element and picks arms by name, a child is decoded into a struct
// whose XMLName tag names a namespace only where the start element's
// namespace was tested: encoding/xml fails ("expected element <x> in name
// space ...") on a like-named element of another namespace, where the decoder
// should have treated it as a foreign child (skipped it or kept it as
// application content).
func namespacedDecodeTargets(c *cx, id string, in func(f *eng.Fn) bool) int {
	n := 0
	for _, f := range c.allFns() {
		if f.Body == nil || f.Obj == nil || !in(f) || !strings.HasPrefix(f.Obj.Name(), "UnmarshalXML") {
			continue
		}
		g := f.Graph()
		for _, cl := range f.Calls("encoding/xml.Decoder.DecodeElement") {
			if len(cl.Args) != 2 {
				continue
			}
			// only calls that decode a CHILD: dominated by a test of a local name
			pt, _ := g.Where(cl)
			if len(g.DominatingAtoms(pt, "eq(*.Name.Local,*)")) == 0 {
				continue
			}
			t := f.Info().TypeOf(cl.Args[0])
			if p, ok := t.(*types.Pointer); ok {
				t = p.Elem()
			}
			st, ok := t.Underlying().(*types.Struct)
			if !ok {
				continue
			}
			ns := ""
			for i := 0; i < st.NumFields(); i++ {
				if st.Field(i).Name() == "XMLName" {
					tag := reflect.StructTag(st.Tag(i)).Get("xml")
					if sp := strings.LastIndex(tag, " "); sp > 0 {
						ns = tag[:sp]
					}
				}
			}
			if ns == "" {
				continue
			}
			n++
			okd := len(g.DominatingAtoms(pt, "eq(*.Name.Space,*)")) > 0
			c.r.Check(id, f, "child decoded into a target in namespace "+ns, "E-dec5: the arm that decodes a child into a namespaced target has tested the child's namespace", cl.Pos(), okd, "the arm is chosen by the local name alone: a like-named element of another namespace makes DecodeElement fail instead of being treated as a foreign child")
		}
	}
	return n
}

// tagsStructured: the name in an `xml:"..."` struct tag carries its namespace
// as "namespace-URL local": a tag `xml:lang,attr` is written as the bytes
// xml:lang by the encoder, but the DECODER (which translates the xml prefix to
// its namespace URL) no longer matches the attribute, so the field stays empty
// on decoding while the hand-written parsers still read it.
func tagsStructured(c *cx, id string, pkgs []string) int {
	n := 0
	for _, pk := range c.p.All {
		ok := false
		for _, rel := range pkgs {
			if pk.PkgPath == eng.ModPath+"/"+strings.TrimSuffix(rel, ".") {
				ok = true
			}
		}
		if !ok {
			continue
		}
		for _, file := range pk.Syntax {
			if strings.HasSuffix(pk.Fset.Position(file.Pos()).Filename, "_test.go") {
				continue
			}
			ast.Inspect(file, func(x ast.Node) bool {
				st, isS := x.(*ast.StructType)
				if !isS {
					return true
				}
				for _, fld := range st.Fields.List {
					if fld.Tag == nil {
						continue
					}
					raw, err := strconv.Unquote(fld.Tag.Value)
					if err != nil {
						continue
					}
					tag, has := reflect.StructTag(raw).Lookup("xml")
					if !has || tag == "" {
						continue
					}
					name := strings.Split(tag, ",")[0]
					// text content is decoded with ,chardata: ,innerxml hands back the
					// escaped source text (a&amp;b) and stays empty when the decoder
					// reads tokens instead of bytes (xml.NewTokenDecoder, which is how
					// received stream errors are decoded)
					for _, opt := range strings.Split(tag, ",")[1:] {
						if ft, isId := fld.Type.(*ast.Ident); opt == "innerxml" && isId && ft.Name == "string" {
							// ([]byte fields capture raw XML on purpose: extensions, smuggling checks)
							n++
							c.r.CheckNamed(id, strings.TrimPrefix(pk.PkgPath, eng.ModPath+"/"), "struct tag option innerxml", "K: character data of stanza and stream elements is decoded with ,chardata, never ,innerxml", fld.Tag.Pos(), false, "innerxml keeps XML escapes in the text and is empty for token decoders: the decoded text differs from the text that was encoded")
						}
					}
					if name == "" {
						continue
					}
					n++
					local := name
					if sp := strings.LastIndex(name, " "); sp >= 0 {
						local = name[sp+1:]
					}
					c.r.CheckNamed(id, strings.TrimPrefix(pk.PkgPath, eng.ModPath+"/"), "struct tag "+name, "K: the local name in an xml struct tag holds no prefix", fld.Tag.Pos(), !strings.Contains(local, ":"), "tag name \""+name+"\" hard-codes a prefix: the decoder matches attributes and elements by namespace URL and local name and will not fill this field")
				}
				return true
			})
		}
	}
	return n
}

// encodersReadOnly (E-eff, local): an encoder (TokenReader, WriteXML,
// MarshalXML, MarshalXMLAttr, MarshalText) does not write to storage that is
// reachable from its receiver: no assignment whose left-hand side goes from
// the receiver - or from a local that holds the address of a part of the
// receiver - through a pointer, slice or map. Encoding a value twice, or
// encoding and then reading it, then sees the same value. (A range loop over
// a slice of structs copies each element: writes to the copy are local.)
func encodersReadOnly(c *cx, id string, in func(f *eng.Fn) bool) int {
	n := 0
	indirect := func(f *eng.Fn, lhs ast.Expr) bool {
		e := ast.Unparen(lhs)
		for {
			var x ast.Expr
			switch y := e.(type) {
			case *ast.SelectorExpr:
				x = y.X
			case *ast.IndexExpr:
				x = y.X
			case *ast.StarExpr:
				return true
			default:
				return false
			}
			x = ast.Unparen(x)
			if t := f.Info().TypeOf(x); t != nil {
				switch t.Underlying().(type) {
				case *types.Pointer, *types.Slice, *types.Map:
					return true
				}
			}
			e = x
		}
	}
	for _, f := range c.allFns() {
		if f.Body == nil || f.Decl == nil || !in(f) || f.Sig() == nil || f.Sig().Recv() == nil {
			continue
		}
		switch f.Decl.Name.Name {
		case "TokenReader", "WriteXML", "MarshalXML", "MarshalXMLAttr", "MarshalText":
		default:
			continue
		}
		n++
		g := f.Graph()
		recv := f.Sig().Recv()
		bad, badPos := "", f.Pos()
		f.WalkBody(func(nd ast.Node) bool {
			if _, isLit := nd.(*ast.FuncLit); isLit {
				return true
			}
			return true
		})
		for _, w := range f.Writes() {
			if !indirect(f, w.LHS) {
				continue
			}
			root := rootLocal(f, w.LHS)
			if root == nil {
				continue
			}
			pt, _ := g.Where(w.Stmt)
			shared := ""
			if root == recv || (f.Decl.Recv != nil && len(f.Decl.Recv.List) > 0 && len(f.Decl.Recv.List[0].Names) > 0 && f.Info().Defs[f.Decl.Recv.List[0].Names[0]] == types.Object(root)) {
				shared = "the receiver"
			} else {
				for _, d := range g.ReachingDefs(root, pt) {
					if d.RHS == nil || (d.Kind != eng.DefPlain) {
						continue
					}
					s := f.Norm(d.RHS, &d.At)
					if strings.HasPrefix(s, "&recv.") || strings.HasPrefix(s, "&recv[") || strings.HasPrefix(s, "&rangeval(recv.") || strings.HasPrefix(s, "&rangeval(rangekey(recv.") || s == "recv" || s == "&recv" {
						shared = "the receiver (through " + f.LocalName(root) + " = " + s + ")"
					} else if strings.HasPrefix(s, "recv.") {
						if t := f.Info().TypeOf(d.RHS); t != nil {
							switch t.Underlying().(type) {
							case *types.Pointer, *types.Slice, *types.Map:
								shared = "the receiver (through " + f.LocalName(root) + " = " + s + ")"
							}
						}
					}
				}
			}
			if shared != "" && bad == "" {
				bad = "assignment to " + f.Norm(w.LHS, nil) + " at " + c.p.Pos(w.Stmt.Pos()) + " writes to storage of " + shared
				badPos = w.Stmt.Pos()
			}
		}
		// appends and copies INTO a slice of the receiver write to its backing
		// array as well: append(recv.f, x), X.AppendEncode(recv.f[len(recv.f):], ...),
		// copy(recv.f, ...). A three-index slice expression (cap == len) forces a
		// new array and is fine.
		isRecv := func(v *types.Var) bool {
			return v != nil && (v == recv || (f.Decl.Recv != nil && len(f.Decl.Recv.List) > 0 && len(f.Decl.Recv.List[0].Names) > 0 && f.Info().Defs[f.Decl.Recv.List[0].Names[0]] == types.Object(v)))
		}
		for _, cl := range f.AllCalls() {
			if len(cl.Args) == 0 {
				continue
			}
			cid := f.CalleeID(cl)
			name := cid
			if i := strings.LastIndexByte(name, '.'); i >= 0 {
				name = name[i+1:]
			}
			if cid != "builtin.append" && cid != "builtin.copy" && !strings.HasPrefix(name, "Append") {
				continue
			}
			dst := ast.Unparen(cl.Args[0])
			if se, ok := dst.(*ast.SliceExpr); ok {
				if se.Slice3 {
					continue
				}
				dst = ast.Unparen(se.X)
			}
			if _, isSlice := f.Info().TypeOf(dst).Underlying().(*types.Slice); !isSlice {
				continue
			}
			if _, isSel := dst.(*ast.SelectorExpr); !isSel {
				continue
			}
			if root := rootLocal(f, dst); isRecv(root) && bad == "" {
				bad = cid + " at " + c.p.Pos(cl.Pos()) + " writes into the backing array of " + f.Norm(dst, nil) + " (spare capacity of the caller's slice is shared with the caller)"
				badPos = cl.Pos()
			}
		}
		c.r.Check(id, f, "encoder leaves the value unchanged", "E-eff: an encoder does not assign through the receiver (or a local alias of a part of it), nor append or copy into one of its slices: encoding does not change the value", badPos, bad == "", bad)
	}
	return n
}

// childSelectedByNamespace (C13.16): where a decoder picks a child element by
// a test of its local name and then decodes it, the same site is dominated by
// a test of the child's namespace (or of its whole name): an element with the
// same local name in an application namespace (an echoed request payload
// called <error xmlns="urn:example:app"/>) is not the protocol element.
func childSelectedByNamespace(c *cx, id string, in func(f *eng.Fn) bool) int {
	n := 0
	for _, f := range c.allFns() {
		if f.Body == nil || !in(f) {
			continue
		}
		g := f.Graph()
		for _, cl := range f.AllCalls() {
			switch f.CalleeID(cl) {
			case "encoding/xml.Decoder.Decode", "encoding/xml.Decoder.DecodeElement":
			default:
				continue
			}
			pt, ok := g.Where(cl)
			if !ok {
				continue
			}
			locals := g.DominatingAtoms(pt, "eq(*.Name.Local,\"*\")")
			if len(locals) == 0 {
				continue
			}
			for _, la := range locals {
				subj := strings.TrimPrefix(la[:strings.Index(la, ".Name.Local,")], "eq(")
				n++
				okd, _ := g.DominatedAny(pt, []string{"eq(" + subj + ".Name,*)", "eq(*," + subj + ".Name)", "stanza.Is(" + subj + ".Name,*)"})
				if !okd {
					// an equality with a namespace, or a disjunction of such equalities
					// (a prefix or substring test of the namespace admits application
					// namespaces: jabber:x:data, jabber:iq:roster, ...)
					for _, a := range g.DominatingAtoms(pt, "*"+subj+".Name.Space*") {
						body := a
						if strings.HasPrefix(a, "or(") && strings.HasSuffix(a, ")") {
							body = a[3 : len(a)-1]
						}
						all := true
						for _, d := range strings.Split(body, " | ") {
							pre := "eq(" + subj + ".Name.Space,"
							if !(strings.HasPrefix(d, pre) && strings.HasSuffix(d, ")") && !strings.Contains(d[len(pre):], "(")) {
								all = false
							}
						}
						if all {
							okd = true
						}
					}
				}
				c.r.Check(id, f, "child selected by local name "+la[strings.Index(la, ".Name.Local,")+12:len(la)-1], "E-dec: a child that is decoded because of its local name is also tested for its namespace (or whole name) on every path to the decode", cl.Pos(), okd, "only the local name is tested: a child with that local name in any other namespace is decoded as the protocol element")
			}
		}
	}
	return n
}

// c19MultiValueTypes (C19.25): XEP-0004 3.2 lets fields of type list-multi,
// jid-multi, text-multi and hidden carry more than one <value/>; the field
// encoder's single-value rule (the break out of the value loop after the
// first value) is taken only when the field's type is none of the four.
func c19MultiValueTypes(c *cx, id string) {
	f := c.fn(id, "form", "(*field).TokenReader")
	if f == nil {
		return
	}
	g := f.Graph()
	want := []string{"list-multi", "jid-multi", "text-multi", "hidden"}
	n := 0
	f.WalkBody(func(nd ast.Node) bool {
		br, ok := nd.(*ast.BranchStmt)
		if !ok || br.Tok != token.BREAK || br.Label != nil {
			return true
		}
		// a break of the range over the field's values (not of a switch)
		var loop *ast.RangeStmt
		for p := g.Parent(br); p != nil; p = g.Parent(p) {
			if _, isSw := p.(*ast.SwitchStmt); isSw {
				return true
			}
			if _, isSel := p.(*ast.SelectStmt); isSel {
				return true
			}
			if _, isFor := p.(*ast.ForStmt); isFor {
				return true
			}
			if r, isR := p.(*ast.RangeStmt); isR {
				loop = r
				break
			}
		}
		if loop == nil || f.Norm(loop.X, nil) != "recv.value" {
			return true
		}
		pt, okp := g.WhereBranch(br)
		if !okp {
			c.r.Check(id, f, "single-value break", "the break is located in the control-flow graph", br.Pos(), false, "cannot locate the break")
			return true
		}
		n++
		have := map[string]bool{}
		for _, a := range g.DominatingAtoms(pt, "!eq(recv.typ,*)") {
			op := strings.TrimSuffix(strings.TrimPrefix(a, "!eq(recv.typ,"), ")")
			if strings.HasPrefix(op, "\"") {
				if s, err := strconv.Unquote(op); err == nil {
					have[s] = true
				}
				continue
			}
			if i := strings.LastIndex(op, "."); i >= 0 {
				if o := f.Pkg.Types.Scope().Lookup(op[i+1:]); o != nil {
					if k, isC := o.(*types.Const); isC && k.Val().Kind() == constant.String {
						have[constant.StringVal(k.Val())] = true
					}
				}
			}
		}
		var missing []string
		for _, w := range want {
			if !have[w] {
				missing = append(missing, w)
			}
		}
		c.r.Check(id, f, "single-value break", "T: only one value is written unless the field's type is list-multi, jid-multi, text-multi or hidden (XEP-0004 3.2)", br.Pos(), len(missing) == 0, "the break is also taken for fields of type "+strings.Join(missing, ", ")+": their second and later values are dropped")
		return true
	})
	c.r.Floor(id, "single-value breaks in the field encoder", n, 1)
}

// rawTokensResolveXMLPrefix (C13.15/C05): a reader that hands out the
// decoder's RAW tokens (prefixes instead of namespaces) to an encoder must
// resolve the reserved xml prefix itself: it is never declared, so xml:lang
// written back as {xml}lang becomes an attribute in a made-up namespace and no
// decoder reads it as the element's language. In every function that calls
// Decoder.RawToken and returns the token, an assignment of the XML namespace
// to an attribute's Name.Space is dominated by the test Name.Space == "xml".
func rawTokensResolveXMLPrefix(c *cx, id string) {
	const xmlNS = "http://www.w3.org/XML/1998/namespace"
	n := 0
	for _, f := range c.allFns() {
		if f.Body == nil || len(f.Calls("encoding/xml.Decoder.RawToken")) == 0 {
			continue
		}
		if f.Sig() == nil || f.Sig().Results().Len() != 2 || eng.TypeStr(f.Sig().Results().At(0).Type()) != "encoding/xml.Token" {
			continue
		}
		n++
		g := f.Graph()
		ok := false
		for _, w := range f.Writes() {
			if w.RHS == nil || !strings.HasSuffix(types.ExprString(w.LHS), ".Name.Space") {
				continue
			}
			cv := f.ConstVal(w.RHS)
			if cv == nil || cv.Kind() != constant.String || constant.StringVal(cv) != xmlNS {
				continue
			}
			pt, _ := g.Where(w.Stmt)
			if okd, _ := g.DominatedAny(pt, []string{"eq(*.Name.Space,\"xml\")"}); okd {
				ok = true
			}
		}
		c.r.Check(id, f, "raw tokens: reserved xml prefix resolved", "T: a RawToken-to-Token adaptor maps the attribute prefix xml to the XML namespace (xml:lang stays xml:lang when the token is encoded again)", f.Pos(), ok, "attributes with the reserved prefix are handed on as {xml}lang: the encoder declares a namespace called \"xml\" and writes _xml:lang")
	}
	c.r.Floor(id, "RawToken adaptors", n, 1)
}

// lossyDecodeStores (E-taint, decode side; C13.17/C19.26): what a decoder
// stores into its receiver (a field, a map entry or its key, a list element) is
// the text as it was decoded: no string-rewriting function (trim, case
// folding, replace) is applied on the way. The encoders write the stored value
// back unchanged, so a case-folded map key or a trimmed text makes the decoded
// value differ from the one that was encoded (language tags en-GB, zh-Hant).
func lossyDecodeStores(c *cx, id string, in func(f *eng.Fn) bool) int {
	n := 0
	for _, f := range c.allFns() {
		if f.Body == nil || f.Obj == nil || !in(f) || f.Sig() == nil || f.Sig().Recv() == nil {
			continue
		}
		switch f.Obj.Name() {
		case "UnmarshalXML", "UnmarshalXMLAttr", "UnmarshalText":
		default:
			continue
		}
		lossyIn := func(e ast.Expr) string {
			found := ""
			if e == nil {
				return ""
			}
			ast.Inspect(e, func(x ast.Node) bool {
				if cl, ok := x.(*ast.CallExpr); ok && (lossyFuncs[f.CalleeID(cl)] || lossyParsers[f.CalleeID(cl)]) && found == "" {
					found = f.CalleeID(cl)
				}
				return found == ""
			})
			return found
		}
		for _, w := range f.Writes() {
			if !strings.HasPrefix(f.Norm(w.LHS, nil), "recv") {
				continue
			}
			rhs := w.RHS
			if rhs == nil {
				// tuple assignment: v, err = parse(x)
				if as, ok := w.Stmt.(*ast.AssignStmt); ok && len(as.Rhs) == 1 {
					rhs = as.Rhs[0]
				}
			}
			if rhs == nil {
				continue
			}
			n++
			bad := lossyIn(rhs)
			if bad == "" {
				// the index / key of the store
				ast.Inspect(w.LHS, func(x ast.Node) bool {
					if ix, ok := x.(*ast.IndexExpr); ok && bad == "" {
						bad = lossyIn(ix.Index)
					}
					return bad == ""
				})
			}
			c.r.Check(id, f, "store into "+f.Norm(w.LHS, nil), "E-taint: a decoder stores the decoded text as it is (no trim, case folding or replace between the decoded value and the receiver)", w.Stmt.Pos(), bad == "", "the stored value or its key passes through "+bad+": the encoders write it back changed and the decoded value is not the one that was encoded")
		}
	}
	return n
}

// formattedIntsKeepTheirRange (E-trunc, encode side; C19.27/C13.19): an
// integer that is formatted for the wire (strconv.Itoa / FormatInt /
// FormatUint, fmt verbs are covered by the formatted-write rule) is formatted
// at its own range: the argument is not a conversion that narrows the value or
// changes its signedness. strconv.Itoa(int(n)) of a uint64 writes 2^63..2^64-1
// as negative numbers, which the type's own decoder (ParseUint) rejects.
func formattedIntsKeepTheirRange(c *cx, id string, in func(f *eng.Fn) bool) int {
	n := 0
	bits := func(b *types.Basic) (int, bool, bool) { // width, signed, ok
		switch b.Kind() {
		case types.Int8:
			return 8, true, true
		case types.Int16:
			return 16, true, true
		case types.Int32:
			return 32, true, true
		case types.Int64:
			return 64, true, true
		case types.Int:
			return 64, true, true
		case types.Uint8:
			return 8, false, true
		case types.Uint16:
			return 16, false, true
		case types.Uint32:
			return 32, false, true
		case types.Uint64, types.Uint, types.Uintptr:
			return 64, false, true
		}
		return 0, false, false
	}
	for _, f := range c.allFns() {
		if f.Body == nil || !in(f) {
			continue
		}
		for _, cl := range f.AllCalls() {
			switch f.CalleeID(cl) {
			case "strconv.Itoa", "strconv.FormatInt", "strconv.FormatUint", "strconv.AppendInt", "strconv.AppendUint":
			default:
				continue
			}
			var arg ast.Expr
			switch f.CalleeID(cl) {
			case "strconv.AppendInt", "strconv.AppendUint":
				arg = cl.Args[1]
			default:
				arg = cl.Args[0]
			}
			n++
			bad := ""
			// peel conversions, remembering the narrowest range passed through
			e := ast.Unparen(arg)
			for depth := 0; depth < 4; depth++ {
				cv, ok := e.(*ast.CallExpr)
				if !ok || len(cv.Args) != 1 {
					break
				}
				tv, isConv := f.Info().Types[cv.Fun]
				if !isConv || !tv.IsType() {
					break
				}
				to, ok1 := tv.Type.Underlying().(*types.Basic)
				from, ok2 := f.Info().TypeOf(cv.Args[0]).Underlying().(*types.Basic)
				if !ok1 || !ok2 || f.ConstVal(cv.Args[0]) != nil {
					break
				}
				tw, ts, okT := bits(to)
				fw, fs, okF := bits(from)
				if okT && okF {
					switch {
					case tw < fw:
						bad = "the value is narrowed from " + from.Name() + " to " + to.Name() + " before it is formatted"
					case ts && !fs && tw <= fw:
						bad = "an unsigned " + from.Name() + " is converted to the signed " + to.Name() + " of the same width before it is formatted: values above the signed maximum are written as negative numbers"
					case !ts && fs:
						bad = "a signed " + from.Name() + " is converted to the unsigned " + to.Name() + " before it is formatted: negative values are written as huge numbers"
					}
				}
				e = ast.Unparen(cv.Args[0])
			}
			c.r.Check(id, f, "formatted integer "+f.Norm(arg, nil), "E-trunc: an integer is formatted at its own width and signedness", cl.Pos(), bad == "", bad)
		}
	}
	return n
}

// lossyParsers parse only a part of what the matching String method writes:
// url.ParseRequestURI "assumes that the URL was received in an HTTP request"
// and does not split off a #fragment (it ends up, escaped, in the path or
// query), whereas the encoders write URL.String().
var lossyParsers = map[string]bool{
	"net/url.ParseRequestURI": true,
}

// emptyAddressAttrAgreement (C19.28, sibling agreement): a payload type whose
// decoder parses an attribute with jid.Parse and returns the error (so that
// attr="" is rejected) must not write that attribute for the zero address:
// the encoder's emission of F.String() as the attribute's value is dominated
// by a test that the address is not the zero value. Otherwise the zero value
// of the field - the natural "absent" - is written as attr="" and the type
// cannot decode its own output.
func emptyAddressAttrAgreement(c *cx, id string, in func(f *eng.Fn) bool) int {
	n := 0
	// decoders: type -> attribute local names parsed strictly
	strict := map[*types.TypeName]map[string]bool{}
	for _, f := range c.allFns() {
		if f.Body == nil || f.Obj == nil || f.Obj.Name() != "UnmarshalXML" || !in(f) {
			continue
		}
		tn := recvTypeName(f)
		if tn == nil {
			continue
		}
		g := f.Graph()
		for _, cl := range f.Calls("jid.Parse") {
			pt, ok := g.Where(cl)
			if !ok || len(cl.Args) != 1 || !strings.HasSuffix(f.Norm(cl.Args[0], &pt), ".Value") {
				continue
			}
			// which attribute? the dominating eq(X.Name.Local,"a") fact
			for _, a := range g.DominatingAtoms(pt, "eq(*.Name.Local,\"*\")") {
				name := a[strings.LastIndex(a, ",\"")+2 : len(a)-2]
				// an empty value is let through if the parse is guarded
				if okg, _ := g.DominatedAny(pt, []string{"!eq(*.Value,\"\")", "lt(0,builtin.len(*.Value))"}); okg {
					continue
				}
				if strict[tn] == nil {
					strict[tn] = map[string]bool{}
				}
				strict[tn][name] = true
			}
		}
	}
	for _, f := range c.allFns() {
		if f.Body == nil || !in(f) {
			continue
		}
		var top *eng.Fn
		for x := f; x != nil; x = x.Parent {
			top = x
		}
		if top.Obj == nil {
			continue
		}
		switch top.Obj.Name() {
		case "TokenReader", "WriteXML", "MarshalXML", "StartElement", "Wrap":
		default:
			continue
		}
		tn := recvTypeName(top)
		if tn == nil || strict[tn] == nil {
			continue
		}
		g := f.Graph()
		for _, lit := range f.WalkLits("encoding/xml.Attr") {
			nameLit, _ := structLitField(lit, "Name").(*ast.CompositeLit)
			val := structLitField(lit, "Value")
			if nameLit == nil || val == nil {
				continue
			}
			local, _ := f.ConstStr(structLitField(nameLit, "Local"))
			if !strict[tn][local] {
				continue
			}
			pt, _ := g.Where(lit)
			vn := f.Norm(val, &pt)
			if !strings.HasPrefix(vn, "jid.JID.String[") {
				continue
			}
			n++
			addr := strings.TrimSuffix(strings.TrimPrefix(vn, "jid.JID.String["), "]()")
			okd, _ := g.DominatedAny(pt, []string{
				"!jid.JID.Equal[" + addr + "](jid.JID{})", "!jid.JID.Equal[jid.JID{}](" + addr + ")",
				"!eq(" + vn + ",\"\")", "!eq(jid.JID.String[" + addr + "](),\"\")",
			})
			c.r.Check(id, f, "attribute "+local+" written from "+addr, "sibling agreement: the type's decoder rejects "+local+"=\"\" (jid.Parse), so the encoder writes the attribute only for a non-zero address", lit.Pos(), okd, "the zero address is written as "+local+"=\"\": the type cannot decode its own output")
		}
	}
	return n
}

// decodedDurationsBounded (E-trunc, C19.30): a decoder that turns a decoded
// integer into a time.Duration by multiplying with a unit (time.Second, ...)
// has bounded the integer first: the product of a peer-chosen int64 and 1e9
// overflows silently (a huge max-age becomes a negative duration). The
// conversion's operand is dominated by an upper-bound fact, or is itself
// defined under one (a clamped local).
func decodedDurationsBounded(c *cx, id string, in func(f *eng.Fn) bool) int {
	n := 0
	for _, f := range c.allFns() {
		if f.Body == nil || !in(f) {
			continue
		}
		g := f.Graph()
		f.WalkBody(func(nd ast.Node) bool {
			be, ok := nd.(*ast.BinaryExpr)
			if !ok || be.Op != token.MUL {
				return true
			}
			for _, pair := range [][2]ast.Expr{{be.X, be.Y}, {be.Y, be.X}} {
				cv, ok := ast.Unparen(pair[0]).(*ast.CallExpr)
				if !ok || len(cv.Args) != 1 || f.CalleeID(cv) != "conv:time.Duration" {
					continue
				}
				unit, isK := f.ConstInt(pair[1])
				if !isK || unit < int64(1000) || f.ConstVal(cv.Args[0]) != nil {
					continue
				}
				pt, okp := g.Where(be)
				if !okp {
					continue
				}
				n++
				x := f.Norm(cv.Args[0], &pt)
				bounded := false
				for _, a := range g.FactsAt(pt) {
					if (strings.HasPrefix(a, "lt("+x+",") || (strings.HasPrefix(a, "!lt(") && strings.HasSuffix(a, ","+x+")"))) && !strings.Contains(a, "nil") {
						bounded = true
					}
				}
				// a local that every path assigned under a bound (clamp): some
				// reaching definition is dominated by "value > max" (the clamp arm)
				if !bounded {
					if idn, ok := ast.Unparen(cv.Args[0]).(*ast.Ident); ok {
						if v, ok := f.Info().ObjectOf(idn).(*types.Var); ok && eng.IsLocal(v) {
							ds := g.ReachingDefs(v, pt)
							for _, d := range ds {
								if d.RHS == nil {
									continue
								}
								if _, isConst := f.ConstInt(d.RHS); isConst {
									for _, a := range g.FactsAt(d.At) {
										if strings.HasPrefix(a, "lt(") && !strings.Contains(a, "nil") {
											bounded = true
										}
									}
								}
							}
						}
					}
				}
				c.r.Check(id, f, "duration from decoded integer "+x, "E-trunc: an integer multiplied into a time.Duration is bounded first (clamped or tested against the largest representable value)", be.Pos(), bounded, "the product overflows for large values: a huge number of seconds becomes a negative duration")
			}
			return true
		})
	}
	return n
}

// historyPageSlotAgreement (C19.31, sibling agreement): history.Query carries
// the page position in one field and the decoder says which: the field that
// UnmarshalXML fills from the result set's <before/> is the field that
// TokenReader writes into RequestPrev.Before, and likewise for <after/> and
// RequestNext.After. (Before: f.BeforeID, another string field of the same
// struct - a filter, not the page position - compiles and loses the page.)
func historyPageSlotAgreement(c *cx, id string) {
	dec := c.fn(id, "history", "(*Query).UnmarshalXML")
	enc := c.fn(id, "history", "(*Query).TokenReader")
	if dec == nil || enc == nil {
		return
	}
	// decoder: recv.F = <... .Set.Before ...> / <... .Set.After>
	fromSlot := map[string]string{}
	dg := dec.Graph()
	for _, w := range dec.Writes() {
		lhs := dec.Norm(w.LHS, nil)
		if w.RHS == nil || !strings.HasPrefix(lhs, "recv.") {
			continue
		}
		pt, _ := dg.Where(w.Stmt)
		r := dec.Norm(w.RHS, &pt)
		if _, isBool := dec.Info().TypeOf(w.RHS).Underlying().(*types.Basic); isBool && dec.Info().TypeOf(w.RHS).Underlying().(*types.Basic).Kind() == types.Bool {
			continue
		}
		switch {
		case strings.HasSuffix(r, ".Set.Before.ID") || strings.HasSuffix(r, ".Set.Before"):
			fromSlot["Before"] = lhs
		case strings.HasSuffix(r, ".Set.After"):
			fromSlot["After"] = lhs
		}
	}
	n := 0
	eg := enc.Graph()
	for _, k := range []struct{ typ, slot string }{{"paging.RequestPrev", "Before"}, {"paging.RequestNext", "After"}} {
		for _, lit := range enc.WalkLits(k.typ) {
			v := structLitField(lit, k.slot)
			if v == nil {
				continue
			}
			n++
			pt, _ := eg.Where(lit)
			got := enc.Norm(v, &pt)
			want := fromSlot[k.slot]
			c.r.Check(id, enc, "field written into "+k.typ+"."+k.slot, "sibling agreement: the encoder writes the page position from the field the decoder fills from <"+strings.ToLower(k.slot)+"/>", v.Pos(), want != "" && got == want, "encoder writes "+got+", decoder fills "+want)
		}
	}
	c.r.Floor(id, "page position slots in history.Query.TokenReader", n, 2)
}

// floatsFormattedForIntegerReaders (C19.32): sibling agreement between an
// encoder that formats a float into an attribute and the decoder of the same
// package that reads that attribute into an integer field. The text must be
// an integer: strconv.FormatFloat(x, 'f', 0, w). Any other format or
// precision ("1.5", "1e+06") is refused by the decoder's integer parse: the
// element the library wrote is rejected by the library.
func floatsFormattedForIntegerReaders(c *cx, id string) int {
	n := 0
	for _, f := range c.allFns() {
		if f.Body == nil || !strings.HasPrefix(f.Pkg.PkgPath, eng.ModPath) {
			continue
		}
		g := f.Graph()
		for _, cl := range f.AllCalls() {
			if f.CalleeID(cl) != "strconv.FormatFloat" || len(cl.Args) != 4 {
				continue
			}
			// the attribute the text goes into
			local := ""
			for p := g.Parent(cl); p != nil; p = g.Parent(p) {
				lit, ok := p.(*ast.CompositeLit)
				if !ok || eng.TypeStr(f.Info().TypeOf(lit)) != "encoding/xml.Attr" {
					continue
				}
				if nm := structLitField(lit, "Name"); nm != nil {
					if nl, ok := ast.Unparen(nm).(*ast.CompositeLit); ok {
						if lv := structLitField(nl, "Local"); lv != nil {
							local, _ = f.ConstStr(lv)
						}
					}
				}
				break
			}
			if local == "" {
				continue
			}
			// an integer field of the package decoded from that attribute
			intField := ""
			for _, obj := range f.Pkg.TypesInfo.Defs {
				v, ok := obj.(*types.Var)
				if !ok || !v.IsField() {
					continue
				}
				t := v.Type()
				if p, ok := t.Underlying().(*types.Pointer); ok {
					t = p.Elem()
				}
				b, ok := t.Underlying().(*types.Basic)
				if !ok || b.Info()&types.IsInteger == 0 {
					continue
				}
				if tag := fieldTagOf(f.Pkg, v); tag != "" {
					parts := strings.Split(tag, ",")
					nameParts := strings.Fields(parts[0])
					isAttr := false
					for _, o := range parts[1:] {
						if o == "attr" {
							isAttr = true
						}
					}
					if isAttr && len(nameParts) > 0 && nameParts[len(nameParts)-1] == local {
						intField = v.Name() + " " + eng.TypeStr(v.Type())
					}
				}
			}
			if intField == "" {
				continue
			}
			n++
			fm := f.ConstVal(cl.Args[1])
			prec, okP := f.ConstInt(cl.Args[2])
			okF := fm != nil && fm.ExactString() == "102" // 'f'
			c.r.Check(id, f, "float formatted into attribute "+local, "sibling agreement: the decoder reads "+local+" into the integer field "+intField+", so the encoder writes an integer: FormatFloat(x, 'f', 0, w)", cl.Pos(), okF && okP && prec == 0, "format/precision "+types.ExprString(cl.Args[1])+"/"+types.ExprString(cl.Args[2])+" can produce a fraction or an exponent, which the integer parse of the decoder refuses")
		}
	}
	return n
}

// fieldTagOf returns the xml struct tag of field v.
func fieldTagOf(pkg *packages.Package, v *types.Var) string {
	tag := ""
	for _, file := range pkg.Syntax {
		ast.Inspect(file, func(nd ast.Node) bool {
			st, ok := nd.(*ast.StructType)
			if !ok || st.Fields == nil {
				return true
			}
			for _, fl := range st.Fields.List {
				for _, nm := range fl.Names {
					if pkg.TypesInfo.Defs[nm] == types.Object(v) && fl.Tag != nil {
						if s, err := strconv.Unquote(fl.Tag.Value); err == nil {
							tag = reflect.StructTag(s).Get("xml")
						}
					}
				}
			}
			return true
		})
	}
	return tag
}

// iterChildSelectedByNamespace: where a handler walks the children of a stanza
// with an xmlstream.Iter and acts on one because of its local name, the arm is
// also dominated by a test of that child's namespace (or whole name). XMPP
// payloads are identified by their expanded name: <received/> exists in
// urn:xmpp:receipts, urn:xmpp:chat-markers:0 and urn:xmpp:carbons:2.
// Returns the number of local-name arms examined.
func iterChildSelectedByNamespace(c *cx, id string, in func(f *eng.Fn) bool) int {
	n := 0
	for _, f := range c.allFns() {
		if f.Body == nil || !in(f) {
			continue
		}
		g := f.Graph()
		seen := map[string]bool{}
		for _, ce := range g.CondEdges() {
			for _, a := range ce.Atoms {
				la := a.S
				if !eng.Glob("eq(*.Name.Local,\"*\")", la) || !strings.Contains(la, "xmlstream.Iter.Current") || strings.Contains(la, ".Attr") {
					continue
				}
				subj := strings.TrimPrefix(la[:strings.Index(la, ".Name.Local,")], "eq(")
				lit := la[strings.Index(la, ".Name.Local,")+12 : len(la)-1]
				if seen[la] {
					continue
				}
				seen[la] = true
				n++
				pt := g.EdgeTarget(ce.E)
				okd, _ := g.DominatedAny(pt, []string{"eq(" + subj + ".Name,*)", "eq(*," + subj + ".Name)", "stanza.Is(" + subj + ".Name,*)"})
				if !okd {
					for _, da := range g.DominatingAtoms(pt, "*"+subj+".Name.Space*") {
						body := da
						if strings.HasPrefix(da, "or(") && strings.HasSuffix(da, ")") {
							body = da[3 : len(da)-1]
						}
						all := true
						for _, d := range strings.Split(body, " | ") {
							pre := "eq(" + subj + ".Name.Space,"
							if !(strings.HasPrefix(d, pre) && strings.HasSuffix(d, ")") && !strings.Contains(d[len(pre):], "(")) {
								all = false
							}
						}
						if all {
							okd = true
						}
					}
				}
				last := g.Blocks[ce.E.B].Nodes
				pos := f.Pos()
				if len(last) > 0 {
					pos = last[len(last)-1].Pos()
				}
				c.r.Check(id, f, "child "+lit+" of the stanza acted on", "E-dec: a child picked out of a stanza by its local name is also tested for its namespace on every path into the arm", pos, okd, "only the local name is tested: a child called "+lit+" in any other namespace is taken for the protocol element")
			}
		}
	}
	return n
}

// timeLayoutsKeepFractions (C19.33): an encoder that writes a time.Time as text
// uses a layout that keeps the sub-second part (time.RFC3339Nano or another
// layout with a fractional-seconds field). time.RFC3339 drops it: the decoded
// value is up to a second earlier than the one that was encoded. Layouts with
// no seconds field at all (a zone offset) are not time stamps and are skipped.
// Returns the number of Format calls examined.
func timeLayoutsKeepFractions(c *cx, id string, in func(f *eng.Fn) bool) int {
	n := 0
	for _, f := range c.allFns() {
		if f.Body == nil || !in(f) {
			continue
		}
		for _, cl := range f.AllCalls() {
			cid := f.CalleeID(cl)
			var layoutArg ast.Expr
			switch cid {
			case "time.Time.Format":
				if len(cl.Args) == 1 {
					layoutArg = cl.Args[0]
				}
			case "time.Time.AppendFormat":
				if len(cl.Args) == 2 {
					layoutArg = cl.Args[1]
				}
			}
			if layoutArg == nil {
				continue
			}
			layout, ok := f.ConstStr(layoutArg)
			if !ok {
				continue
			}
			if !strings.Contains(layout, "05") {
				continue // no seconds field: not a full time stamp
			}
			n++
			okL := strings.Contains(layout, "05.0") || strings.Contains(layout, "05.9") || strings.Contains(layout, "05,0") || strings.Contains(layout, "05,9")
			c.r.Check(id, f, "time layout "+types.ExprString(layoutArg), "E-trunc: a time stamp is written with its fractional seconds (the decoders accept them)", cl.Pos(), okL, "layout "+strconv.Quote(layout)+" has a seconds field and no fraction: the sub-second part of the value is dropped")
		}
	}
	return n
}
