package rules

import (
	"go/ast"
	"go/types"
	"sort"
	"strings"

	"verif/checker/eng"
)

// lossyFuncs rewrite a string so that the original cannot be recovered (or,
// for the escapers, so that the encoder's own escaping is applied twice).
var lossyFuncs = map[string]bool{
	"strings.TrimSpace": true, "strings.Trim": true, "strings.TrimLeft": true, "strings.TrimRight": true,
	"strings.TrimPrefix": true, "strings.TrimSuffix": true, "strings.TrimFunc": true,
	"strings.ToLower": true, "strings.ToUpper": true, "strings.Title": true, "strings.ToTitle": true,
	"strings.Replace": true, "strings.ReplaceAll": true, "strings.Fields": true, "strings.Map": true,
	"bytes.TrimSpace": true, "bytes.Trim": true, "bytes.ToLower": true, "bytes.ToUpper": true,
	"encoding/xml.EscapeText": true, "encoding/xml.Escape": true, "html.EscapeString": true, "net/url.QueryEscape": true,
}

// lossyEmission (E-taint): in the encoders (TokenReader, Wrap, WriteXML,
// MarshalXML, MarshalXMLAttr, StartElement and the closures inside them) the
// text handed to xml.CharData(...) and to the Value of an xml.Attr literal is
// the field's value as it is: no string-rewriting function lies on the
// definition chain between a field and the emission. The decoder hands back
// what was written, so a trimmed, case-folded or pre-escaped copy does not
// round-trip.
func lossyEmission(c *cx, id string, in func(f *eng.Fn) bool) int {
	n := 0
	isEnc := func(f *eng.Fn) bool {
		for x := f; x != nil; x = x.Parent {
			if x.Obj != nil {
				switch x.Obj.Name() {
				case "TokenReader", "Wrap", "WriteXML", "MarshalXML", "MarshalXMLAttr", "StartElement":
					return in(x)
				}
				return false
			}
		}
		return false
	}
	for _, f := range c.allFns() {
		if f.Body == nil || !isEnc(f) {
			continue
		}
		g := f.Graph()
		var sinks []ast.Expr
		f.WalkBody(func(nd ast.Node) bool {
			switch x := nd.(type) {
			case *ast.CallExpr:
				if len(x.Args) == 1 {
					if tv, ok := f.Info().Types[x.Fun]; ok && tv.IsType() && eng.TypeStr(tv.Type) == "encoding/xml.CharData" {
						sinks = append(sinks, x.Args[0])
					}
				}
			case *ast.CompositeLit:
				if t := f.Info().TypeOf(x); t != nil && eng.TypeStr(t) == "encoding/xml.Attr" {
					if v := structLitField(x, "Value"); v != nil {
						sinks = append(sinks, v)
					}
				}
			}
			return true
		})
		for _, sk := range sinks {
			n++
			found := map[string]bool{}
			seen := map[ast.Node]bool{}
			var walk func(fn *eng.Fn, e ast.Expr, depth int)
			walk = func(fn *eng.Fn, e ast.Expr, depth int) {
				if e == nil || depth > 8 || seen[e] {
					return
				}
				seen[e] = true
				ast.Inspect(e, func(x ast.Node) bool {
					switch y := x.(type) {
					case *ast.FuncLit:
						return false
					case *ast.CallExpr:
						if lossyFuncs[fn.CalleeID(y)] {
							found[fn.CalleeID(y)] = true
						}
					case *ast.Ident:
						v, ok := fn.Info().ObjectOf(y).(*types.Var)
						if !ok || !eng.IsLocal(v) {
							return true
						}
						// definitions in this function or, for captured variables, in the enclosing ones
						for df := fn; df != nil; df = df.Parent {
							for _, d := range df.Graph().DefsOf(v) {
								if d.RHS != nil {
									walk(df, d.RHS, depth+1)
								}
							}
						}
					}
					return true
				})
			}
			walk(f, sk, 0)
			var names []string
			for k := range found {
				names = append(names, k)
			}
			sort.Strings(names)
			pt, _ := g.Where(sk)
			c.r.Check(id, f, "emitted text "+f.Norm(sk, &pt), "E-taint: no string-rewriting call (trim, case folding, replace, pre-escaping) between a value and its emission as character data or attribute value", sk.Pos(), len(names) == 0, "the emitted text passes through "+strings.Join(names, ", ")+": the decoded value differs from the encoded one")
		}
	}
	return n
}

// c19BlankLines (C19.13): a text-multi value is written one <value/> per line,
// so an empty string in the value list is a blank line of the text. The
// encoder's "skip empty values" shortcut must not apply to that type: every
// edge that leaves an iteration of the value loop because the value is empty
// also establishes that the field is not text-multi.
func c19BlankLines(c *cx, id string) {
	f := c.fn(id, "form", "(*field).TokenReader")
	if f == nil {
		return
	}
	g := f.Graph()
	n := 0
	for _, ce := range g.EdgesMatching(`eq(rangeval(recv.value),"")`) {
		n++
		has := false
		for _, a := range ce.Atoms {
			if a.S == "!eq(recv.typ,form.TypeTextMulti)" {
				has = true
			}
		}
		if !has {
			// or dominated by it already
			src := eng.Point{B: ce.E.B, I: len(g.Blocks[ce.E.B].Nodes)}
			has, _ = g.Dominated(src, "!eq(recv.typ,form.TypeTextMulti)")
		}
		pos := f.Pos()
		if nodes := g.Blocks[ce.E.B].Nodes; len(nodes) > 0 {
			pos = nodes[len(nodes)-1].Pos()
		}
		c.r.Check(id, f, "empty value skipped", "G: an empty value is dropped only for field types other than text-multi (there it is a blank line of the text and must round-trip)", pos, has, "blank lines of a multi-line text are dropped by the encoder")
	}
	c.r.Floor(id, "empty-value tests in the field encoder", n, 1)
}
