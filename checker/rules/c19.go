package rules

import (
	"go/ast"
	"go/token"
	"go/types"
	"golang.org/x/tools/go/types/typeutil"
	"strconv"
	"strings"

	"verif/checker/eng"
)

func init() {
	Registry["C19"] = Rule{
		Meta: eng.Meta{
			Explanation: "STRUCTURAL PART ONLY of 'extension payloads encode consistently, safely and round-trip' (all round-trip and path-agreement equations are not decided). Decided over every function of the extension payload packages (form, disco, paging, delay, xtime, forward, carbons, receipts, roster, blocklist, bookmarks, pubsub, history, muc, commands, oob, version, upload, bin, file, crypto, styling, internal/saslerr): no-panic rules (C19.1): no non-comma-ok type assertion, no Must* on non-constant input, explicit panics only from the reasoned accept table, Index* sentinels never reach a slice bound, constant slice indices and subtractive make sizes have a dominating length fact, the nil contract of Iter.Current is honoured, the destination of every base64 Decode is sized from DecodedLen(len(src)) of the same source on every path; encoding discipline (C19.2): formatted/raw writes only to in-memory builders and hashes; sibling delegation (C19.4): every MarshalXML delegates to the type's own WriteXML/TokenReader so both encodings are the same bytes by construction; enumeration exhaustiveness and the lazy-Wrap alias rule (C19.5, shared with C13); presence guards of optional pointer fields in encoders test only presence, not the value (C19.6).",
			NotDecided:  "decode(encode(v)) equivalence for any type, agreement of MarshalXML and TokenReader on values where they do not delegate, vocabulary agreement of encoders and decoders.",
			Trusted:     trustedCommon,
		},
		Run: runC19,
	}
}

var c19Pkgs = []string{"form.", "disco.", "disco/info.", "disco/items.", "paging.", "delay.", "xtime.", "forward.", "carbons.", "receipts.", "roster.", "blocklist.", "bookmarks.", "pubsub.", "history.", "muc.", "commands.", "oob.", "version.", "upload.", "bin.", "file.", "crypto.", "styling.", "internal/saslerr."}

var acceptC19 = []accept{
	{"crypto.Hash.TokenReader", "builtin.panic", "documented: panics for a hash value that is not registered (programming error, not input)"},
	{"crypto.HashOutput.TokenReader", "builtin.panic", "same"},
	{"crypto.*", "builtin.panic", "hash registry misuse (programming error)"},
	{"delay.*", "builtin.panic", "unreachable: the constant time format cannot fail to parse"},
	{"xtime.*", "builtin.panic", "unreachable: constant layout"},
	{"mux.*", "builtin.panic", "registration-time precondition"},
	{"form.*", "builtin.panic", "documented constructor precondition (programming error, not input)"},
	{"pubsub.*", "builtin.panic", "documented precondition"},
	{"*", "builtin.panic", ""},
}

func inC19(f *eng.Fn) bool {
	for _, p := range c19Pkgs {
		if strings.HasPrefix(f.Short, p) {
			return true
		}
	}
	return false
}

func runC19(p *eng.Prog, r *eng.Report, tier string) {
	c := &cx{p, r, tier}
	c.r.Floor("C19.56", "string fields written when set", r19SetValuesAreWritten(c, "C19.56", inC19), 10)
	c.r.Floor("C19.57", "top-level receiver stores of decoders", r19DecodersStoreOnEverySuccess(c, "C19.57", inC19), 5)
	r17HashVocabularyAgrees(c, "C19.52")
	c.r.Floor("C19.51", "functions scanned for package-level state", r17NoHiddenGlobalState(c, "C19.51"), 500)
	c.r.Floor("C19.42", "reads of receiver fields a decoder stores into", decoderReadsOwnStores(c, "C19.42", func(f *eng.Fn) bool { return true }), 1)
	// (no instance on today's tree: the encoders grow their lists with append;
	// the rule is kept alive by the stored variant C19-r14-3, thorough tier)
	c.r.Note("C19.43: %d indexed stores through a counter inside loops", indexedFillAdvances(c, "C19.43", func(f *eng.Fn) bool { return true }))
	c.r.Floor("C19.44", "Handle* methods of the module", handlersBuildTheirPayloads(c, "C19.44"), 20)
	c.r.Floor("C19.45", "tests of a local error in iterator Next methods", iteratorsKeepTheirErrors(c, "C19.45"), 1)
	c.r.Floor("C19.46", "switches over an enumeration in its own methods", enumSwitchesComplete(c, "C19.46"), 1)
	c.r.Floor("C19.47", "struct fields with an xml tag", noInnerXMLTargets(c, "C19.47"), 100)
	c.r.Floor("C19.55", "xml.StartElement literals of the module", elementNamesNotFromXMLName(c, "C19.55"), 120)
	c.r.Floor("C19.54", "structs that embed a stanza type", stanzaWrappersDecodeTheirPayloadAttrs(c, "C19.54"), 10)
	c.r.Floor("C19.53", "functions that re-encode decoder tokens", reencodedTokensDropDeclarations(c, "C19.53", inC19), 1)
	c.r.Floor("C19.48", "uses of xmlstream.InnerElement", innerElementAfterItsStart(c, "C19.48"), 3)
	c.r.Floor("C19.49", "early error returns of token transformers", lastTokenWithEOF(c, "C19.49"), 1)
	nf := 0
	nBelief := 0
	defer func() { c.r.Floor("C19.1", "unreachable-panic beliefs checked against a library callee", nBelief, 1) }()
	for _, f := range c.allFns() {
		if !inC19(f) {
			continue
		}
		nf++
		c.r.Check("C19.0", f, "function scanned", "function of an extension payload package, scanned by C19.1/C19.6", f.Pos(), true, "")
		for _, ta := range bareAsserts(f) {
			what := "assert:" + eng.TypeStr(f.Info().TypeOf(ta.Type))
			c.r.Check("C19.1", f, "bare type assertion "+what+" on "+f.Norm(ta.X, nil), "no non-comma-ok type assertion in payload code", ta.Pos(), false, "a value of another type panics here")
		}
		for _, cl := range f.Calls("builtin.panic") {
			why := ""
			ok := false
			for _, a := range acceptC19[:len(acceptC19)-1] {
				if eng.Glob(a.Fn, f.Short) {
					ok, why = true, a.Reason
					break
				}
			}
			// panics must not be reachable from decoding: only in constructors/encoders of the listed families
			if ok && (strings.Contains(f.Short, "Unmarshal") || strings.Contains(f.Short, "Handle")) {
				ok = false
			}
			c.r.Check("C19.1", f, "explicit panic", "explicit panics only at documented programming-error sites, never in decoders or handlers ("+why+")", cl.Pos(), ok, "explicit panic in payload code")
			if ok && strings.HasPrefix(why, "unreachable") {
				if unreachableBelief(c, "C19.1", f, cl) {
					nBelief++
				}
			}
		}
		for _, cl := range f.AllCalls() {
			id := f.CalleeID(cl)
			base := id[strings.LastIndex(id, ".")+1:]
			if strings.HasPrefix(base, "Must") && !strings.HasPrefix(id, "regexp.") && !strings.HasPrefix(id, "text/template") {
				constArgs := true
				for _, a := range cl.Args {
					if f.ConstVal(a) == nil {
						constArgs = false
					}
				}
				c.r.Check("C19.1", f, "call of "+id, "Must* helpers are called with constants only", cl.Pos(), constArgs, id+" panics on invalid input and its argument is not a constant")
			}
		}
		c09IndexID(c, "C19.1", f, "payload package")
		nilLocation(c, "C19.1", f)
		c09IterCurrent19(c, f)
		c19Base64(c, f)
		c19DecodedCount(c, f)
		c19PresenceGuards(c, f)
		c19OptionalPointers(c, f)
	}
	c.r.Floor("C19.0", "functions of the payload packages", nf, 300)
	ng := 0
	for _, o := range c.r.Obls {
		if o.ID == "C19.6" {
			ng++
		}
	}
	c.r.Floor("C19.6", "presence guards of optional pointer fields in encoders", ng, 6)
	c13Discipline(c, "C19.2", c19Pkgs)
	c19Delegation(c)
	decoderSkipTypestate(c, "C19.9", inC19, 8)
	// ---- C19.12 encoders emit field values verbatim
	c19BlankLines(c, "C19.13")
	nTg := tagsStructured(c, "C19.16", c19Pkgs)
	c.r.Floor("C19.16", "xml struct tags in the payload packages", nTg, 100)
	nNsD := namespacedDecodeTargets(c, "C19.21", inC19)
	c.r.Note("C19.21: %d children decoded into namespaced targets examined", nNsD)
	nEC := emptyContentAccepted(c, "C19.20", inC19)
	c.r.Floor("C19.20", "character-data assertions in the payload decoders", nEC, 1)
	nAM := attrMarshalersByValue(c, "C19.19", c19Pkgs)
	c.r.Floor("C19.19", "attribute fields with their own marshaler", nAM, 3)
	historyPageSlotAgreement(c, "C19.31")
	c.r.Floor("C19.32", "floats formatted into attributes that are decoded into integer fields", floatsFormattedForIntegerReaders(c, "C19.32"), 1)
	c.r.Floor("C19.33", "time stamps formatted by the encoders", timeLayoutsKeepFractions(c, "C19.33", inC19), 5)
	nDur := decodedDurationsBounded(c, "C19.30", inC19)
	c.r.Floor("C19.30", "durations computed from decoded integers", nDur, 1)
	c20SortsCopies(c, "C19.29")
	nEA := emptyAddressAttrAgreement(c, "C19.28", func(f *eng.Fn) bool { return inC19(f) || strings.HasPrefix(f.Short, "stanza.") })
	c.r.Note("C19.28: %d address attributes with a strict decoder examined", nEA)
	nFI := formattedIntsKeepTheirRange(c, "C19.27", inC19)
	c.r.Floor("C19.27", "integers formatted in the payload packages", nFI, 5)
	nLD := lossyDecodeStores(c, "C19.26", inC19)
	c.r.Floor("C19.26", "stores of the payload decoders", nLD, 50)
	c19MultiValueTypes(c, "C19.25")
	nZM := zeroValueMapStores(c, "C19.24", inC19)
	c.r.Floor("C19.24", "stores into map fields of exported receivers", nZM, 1)
	nRO := encodersReadOnly(c, "C19.23", inC19)
	c.r.Floor("C19.23", "encoders examined for writes through the receiver", nRO, 100)
	nOpt := optionalPointerFields(c, "C19.18", inC19)
	c.r.Note("C19.18: %d uses through optional pointer fields examined", nOpt)
	nGate := emissionGatedBySibling(c, "C19.17", inC19)
	c.r.Floor("C19.17", "uses of receiver fields in the payload encoders", nGate, 100)
	nNm := qualifiedNamesStructured(c, "C19.16", inC19)
	c.r.Floor("C19.16", "xml.Name literals in the payload packages", nNm, 50)
	nAppD := decodedEntryAppended(c, "C19.15", inC19)
	c.r.Note("C19.15: %d decoders that append decoded entries examined", nAppD)
	nTr := parsedIntTruncation(c, "C19.14", inC19)
	c.r.Note("C19.14: %d narrowing conversions of parsed numbers examined", nTr)
	nle := lossyEmission(c, "C19.12", inC19)
	c.r.Floor("C19.12", "emitted texts in the payload encoders", nle, 40)
	// C19.11 tokens of an xml.Decoder are not replayed to the wire as they
	// come: the decoder reports an element's namespace in its name AND as an
	// xmlns attribute, the encoder writes one for the name again, and the
	// element goes out with a repeated attribute (not well-formed; one more on
	// every round trip). A decoder used as a payload passes an attribute filter.
	nrep := 0
	for _, f := range c.allFns() {
		if !inC19(f) || f.Body == nil {
			continue
		}
		for _, cl := range f.Calls("encoding/xml.NewDecoder") {
			par := f.Graph().Parent(cl)
			pc, isCall := par.(*ast.CallExpr)
			if !isCall {
				continue
			}
			cid := f.CalleeID(pc)
			if innerFn, ok := ast.Unparen(pc.Fun).(*ast.CallExpr); ok && f.CalleeID(innerFn) == "mellium.im/xmlstream.RemoveAttr" {
				cid = "mellium.im/xmlstream.RemoveAttr(...)"
			}
			if !strings.HasPrefix(cid, "mellium.im/xmlstream.") {
				continue
			}
			nrep++
			// xmlstream.RemoveAttr(pred)(decoder): the parent call's function is itself a RemoveAttr call
			filtered := false
			if inner, ok := ast.Unparen(pc.Fun).(*ast.CallExpr); ok && f.CalleeID(inner) == "mellium.im/xmlstream.RemoveAttr" {
				filtered = true
			}
			if filtered {
				// the filter drops EVERY unprefixed xmlns attribute of a namespaced
				// element: its predicate has no condition beyond these three
				inner := ast.Unparen(pc.Fun).(*ast.CallExpr)
				okPred, whyPred := false, "the predicate is not a function literal with a single return"
				if lit, ok := ast.Unparen(inner.Args[0]).(*ast.FuncLit); ok && len(stripNoops(lit.Body.List)) == 1 {
					if rs, ok := stripNoops(lit.Body.List)[0].(*ast.ReturnStmt); ok && len(rs.Results) == 1 {
						lf := c.p.FnOfLit(lit)
						var conj []ast.Expr
						var split func(e ast.Expr)
						split = func(e ast.Expr) {
							e = ast.Unparen(e)
							if be, ok := e.(*ast.BinaryExpr); ok && be.Op == token.LAND {
								split(be.X)
								split(be.Y)
								return
							}
							conj = append(conj, e)
						}
						// an alternative that selects the prefixed declarations
						// (xmlns:p) may stand beside the conjunction
						top := ast.Unparen(rs.Results[0])
						if be, ok := top.(*ast.BinaryExpr); ok && be.Op == token.LOR {
							if lf.Norm(be.X, nil) == `(p1.Name.Space == "xmlns")` {
								top = be.Y
							} else if lf.Norm(be.Y, nil) == `(p1.Name.Space == "xmlns")` {
								top = be.X
							}
						}
						split(top)
						allowed := map[string]bool{`(p0.Name.Space != "")`: true, `(p1.Name.Space == "")`: true, `(p1.Name.Local == "xmlns")`: true}
						okPred, whyPred = true, ""
						hasLocal := false
						for _, e := range conj {
							t := lf.Norm(e, nil)
							if t == `(p1.Name.Local == "xmlns")` {
								hasLocal = true
							}
							if !allowed[t] {
								okPred, whyPred = false, "extra condition "+t+": an xmlns attribute that does not satisfy it is written next to the one the encoder adds"
							}
						}
						if !hasLocal {
							okPred, whyPred = false, "the predicate does not select the xmlns attribute"
						}
					}
				}
				c.r.Check("C19.11", f, "attribute filter drops every default-namespace declaration", "G(exact): the predicate is a conjunction of {element is namespaced, attribute is unprefixed, attribute is xmlns} and nothing else", cl.Pos(), okPred, whyPred)
			}
			c.r.Check("C19.11", f, "decoder replayed as a payload", "K: a decoder whose tokens are written to the wire is wrapped in an attribute filter (xmlstream.RemoveAttr) that drops the xmlns the encoder writes anyway", cl.Pos(), filtered, "tokens of xml.NewDecoder go to "+cid+" unfiltered: namespaced elements are written with a duplicate xmlns attribute")
		}
	}
	c.r.Note("C19.11: %d decoders used as payload readers examined", nrep)
	c.r.Floor("C19.11", "decoders replayed as payloads", nrep, 1)
	nloop := decoderLoopConsumes(c, "C19.10", inC19)
	c.r.Note("C19.10: %d start-element edges in token loops examined", nloop)
	noManualEscaping(c, "C19.35", inC19)
	iteratorValuePerItem(c, "C19.36", inC19)
	decodeTargetsAreFresh(c, "C19.37", inC19)
	encoderLoopsDoNotFilter(c, "C19.38", inC19)
	decodersKeepEveryElement(c, "C19.39", inC19)
	xmlLangTagsNamespaced(c, "C19.40")
	noLossyInDecoders(c, "C19.41", inC19, 5)
	c.r.Floor("C19.34", "start-element edges in the token loops of the payload decoders", decoderLoopVisitsEveryChild(c, "C19.34", inC19), 1)
	ntag := tagNamespaceAgreement(c, "C19.3", inC19)
	c.r.Note("C19.3: %d decoder tags with an encoder counterpart examined", ntag)
	c19FieldCoverage(c)
	wrapAliasing(c, "C19.5", c19Pkgs)
	var rels []string
	for _, p := range c19Pkgs {
		rels = append(rels, strings.TrimSuffix(p, "."))
	}
	enumExhaustive(c, "C19.5", rels)
	c19EnumLoops(c, "C19.5", inC19)
}

func c09IterCurrent19(c *cx, f *eng.Fn) {
	// same rule as C09.7 under the C19 id
	before := len(c.r.Obls)
	c09IterCurrent(c, f, "payload package")
	for _, o := range c.r.Obls[before:] {
		o.ID = "C19.1"
		o.Key = strings.Replace(o.Key, "C09.7|", "C19.1|", 1)
	}
}

// c19Base64: the destination of base64 Decode is sized from the source.
func c19Base64(c *cx, f *eng.Fn) { c19Base64As(c, "C19.1", f) }

func c19Base64As(c *cx, rid string, f *eng.Fn) {
	g := f.Graph()
	// DecodedLen is the least size Decode may need for ANY input of that length
	// (padding in unexpected places included): nothing is subtracted from it
	f.WalkBody(func(nd ast.Node) bool {
		be, ok := nd.(*ast.BinaryExpr)
		if !ok || be.Op != token.SUB {
			return true
		}
		if cl := f.ContainsCall(be.X, "encoding/base64.Encoding.DecodedLen"); cl != nil {
			c.r.Check(rid, f, "size derived from DecodedLen reduced", "E-idx(d): a decode buffer is at least DecodedLen(len(src)) bytes long (Decode writes whole groups: 'the padding decodes to nothing' does not make the buffer safe to shrink)", be.Pos(), false, "the buffer is "+f.Norm(be, nil)+": a payload with more padding characters than real padding decodes past its end")
		}
		return true
	})
	for _, cl := range f.Calls("encoding/base64.Encoding.Decode") {
		pt, _ := g.Where(cl)
		src := f.Norm(cl.Args[1], &pt)
		srcRaw := f.Norm(cl.Args[1], nil)
		sized := func(q eng.Point, nd ast.Node) bool {
			found := false
			ast.Inspect(nd, func(x ast.Node) bool {
				dc, ok := x.(*ast.CallExpr)
				if !ok || f.CalleeID(dc) != "encoding/base64.Encoding.DecodedLen" || len(dc.Args) != 1 {
					return true
				}
				a := f.Norm(dc.Args[0], &q)
				a2 := f.Norm(dc.Args[0], nil)
				if a == "builtin.len("+src+")" || a2 == "builtin.len("+srcRaw+")" {
					found = true
				}
				// l := len(v.Data) ... DecodedLen(l)
				if v := rootLocal(f, dc.Args[0]); v != nil && !found {
					for _, d := range g.DefsOf(v) {
						if d.RHS != nil {
							s := f.Norm(d.RHS, nil)
							if s == "builtin.len("+srcRaw+")" {
								found = true
							}
						}
					}
				}
				return true
			})
			return found
		}
		c.r.Check(rid, f, "base64 Decode destination for "+srcRaw, "E-idx(d): every path to base64 Decode(dst, src) passes DecodedLen(len(src)) of the same source (the destination is sized from the input, not from an expectation about it)", cl.Pos(), g.MustPassBefore(g.Entry(), pt, sized, nil), "Decode is reachable without sizing the destination from DecodedLen(len("+srcRaw+")): a longer payload writes out of range")
	}
}

// c19DecodedCount (C19.8): DecodedLen is an upper bound (it counts padding),
// so a destination sized from it must be trimmed to the count Decode returns;
// otherwise the decoded value carries up to two trailing zero bytes and does
// not equal what was encoded.
func c19DecodedCount(c *cx, f *eng.Fn) {
	g := f.Graph()
	for _, cl := range f.Calls("encoding/base64.Encoding.Decode") {
		dst := types.ExprString(cl.Args[0])
		as, _ := stmtOf(f, cl).(*ast.AssignStmt)
		ok := false
		why := "the count returned by Decode is discarded"
		if as != nil && len(as.Lhs) == 2 && len(as.Rhs) == 1 && ast.Unparen(as.Rhs[0]) == ast.Expr(cl) {
			if id, isID := as.Lhs[0].(*ast.Ident); isID && id.Name != "_" {
				nobj := f.Info().ObjectOf(id)
				why = "the destination is never re-sliced to the returned count"
				from, _ := g.Where(cl)
				f.WalkBody(func(nd ast.Node) bool {
					se, isSl := nd.(*ast.SliceExpr)
					if !isSl || se.High == nil || se.Low != nil || types.ExprString(se.X) != dst {
						return true
					}
					hid, isID := ast.Unparen(se.High).(*ast.Ident)
					if !isID || f.Info().ObjectOf(hid) != nobj {
						return true
					}
					if to, found := g.Where(se); found && g.Reachable(from, to, nil, nil) {
						ok = true
					}
					return true
				})
			}
		}
		c.r.Check("C19.8", f, "count of base64 Decode into "+dst, "the decoded value is the first n bytes of the destination: the count returned by Decode re-slices the destination (DecodedLen over-approximates by the padding)", cl.Pos(), ok, why)
	}
}

// c19PresenceGuards: in encoders, the emission of an optional pointer field is
// guarded by its presence only.
func c19PresenceGuards(c *cx, f *eng.Fn) {
	if f.Obj == nil {
		return
	}
	name := f.Obj.Name()
	if name != "TokenReader" && name != "WriteXML" && name != "MarshalXML" && name != "MarshalXMLAttr" {
		return
	}
	f.WalkBody(func(nd ast.Node) bool {
		// guards: if-conditions and the case expressions of tagless switches
		var guards []ast.Expr
		switch is := nd.(type) {
		case *ast.IfStmt:
			guards = append(guards, is.Cond)
		case *ast.SwitchStmt:
			if is.Tag == nil {
				for _, cc := range is.Body.List {
					guards = append(guards, cc.(*ast.CaseClause).List...)
				}
			}
		}
		for _, guard := range guards {
			guard = resolveBool(f, guard)
			var conj []ast.Expr
			var split func(e ast.Expr)
			split = func(e ast.Expr) {
				e = ast.Unparen(e)
				if be, ok := e.(*ast.BinaryExpr); ok && be.Op == token.LAND {
					split(be.X)
					split(be.Y)
					return
				}
				conj = append(conj, e)
			}
			split(guard)
			for _, a := range conj {
				px, ok := nilCompare(f, a, token.NEQ)
				if !ok {
					continue
				}
				x := f.Norm(px, nil)
				if _, isPtr := f.Info().TypeOf(px).Underlying().(*types.Pointer); !isPtr || !strings.HasPrefix(x, "recv.") {
					continue
				}
				bad := false
				for _, b := range conj {
					if b != a && strings.Contains(f.Norm(b, nil), "*"+x) {
						bad = true
					}
				}
				if !bad {
					c.r.Check("C19.6", f, "presence guard of "+x, "an optional pointer field is emitted iff it is present: the guard does not also test the pointed-to value (a present zero value must round-trip)", guard.Pos(), true, "")
				}
				for _, b := range conj {
					if b == a {
						continue
					}
					if strings.Contains(f.Norm(b, nil), "*"+x) {
						c.r.Check("C19.6", f, "presence guard of "+x, "an optional pointer field is emitted iff it is present: the guard does not also test the pointed-to value (a present zero value must round-trip)", guard.Pos(), false, "guard "+c.p.NodeStr(guard)+" drops a present value")
					}
				}
			}
		}
		return true
	})
}

// c19Delegation: MarshalXML delegates to the type's own WriteXML/TokenReader.
func c19Delegation(c *cx) {
	n := 0
	for _, f := range c.allFns() {
		if !inC19(f) || f.Obj == nil || f.Obj.Name() != "MarshalXML" {
			continue
		}
		n++
		ok := false
		for _, cl := range f.AllCalls() {
			id := f.CalleeID(cl)
			if strings.HasSuffix(id, ".WriteXML") || strings.HasSuffix(id, ".TokenReader") {
				if sel, isSel := ast.Unparen(cl.Fun).(*ast.SelectorExpr); isSel {
					rn := f.Norm(sel.X, nil)
					if rn == "recv" || strings.HasPrefix(rn, "recv.") || rn == "*recv" {
						ok = true
					}
				}
			}
			// helper in the same package taking the receiver
			if fo := f.Prog.FnOf(calleeFunc(f, cl)); fo != nil && fo.Pkg == f.Pkg && !strings.HasSuffix(id, ".MarshalXML") {
				for _, a := range cl.Args {
					if an := f.Norm(a, nil); an == "recv" || an == "*recv" || an == "&recv" {
						ok = true
					}
				}
			}
		}
		c.r.Check("C19.4", f, "MarshalXML delegates", "sibling delegation: MarshalXML produces its bytes through the same type's WriteXML/TokenReader", f.Pos(), ok, "MarshalXML has its own encoding path (the two encodings can diverge)")
	}
	c.r.Floor("C19.4", "MarshalXML methods", n, 25)
}

// nilSafe: the method tests its pointer receiver against nil before using it,
// or uses it only through nil-safe methods.
func nilSafe(c *cx, f *eng.Fn, depth int) bool {
	if f == nil || f.Body == nil || depth > 2 {
		return false
	}
	sig := f.Sig()
	if sig == nil || sig.Recv() == nil {
		return false
	}
	g := f.Graph()
	safe := true
	f.WalkBody(func(nd ast.Node) bool {
		switch x := nd.(type) {
		case *ast.SelectorExpr:
			id, ok := ast.Unparen(x.X).(*ast.Ident)
			if !ok || f.Info().Uses[id] != sig.Recv() {
				return true
			}
			pt, ok := g.Where(x)
			if !ok {
				return true
			}
			if okd, _ := g.Dominated(pt, "!eq(recv,nil)"); okd {
				return true
			}
			// a method call on the receiver: fine if that method is nil-safe
			if sel, isSel := f.Info().Selections[x]; isSel && sel.Kind() != 0 {
				if call, isCall := g.Parent(x).(*ast.CallExpr); isCall && call.Fun == ast.Expr(x) {
					if nilSafe(c, f.Prog.FnOf(calleeFunc(f, call)), depth+1) {
						return true
					}
				}
			}
			safe = false
		}
		return true
	})
	return safe
}

// c19OptionalPointers (C19.7): a pointer field of a local decode struct is nil
// when the element is absent; method calls on it need a nil test or a nil-safe
// callee.
func c19OptionalPointers(c *cx, f *eng.Fn) {
	g := f.Graph()
	for _, cl := range f.AllCalls() {
		sel, ok := ast.Unparen(cl.Fun).(*ast.SelectorExpr)
		if !ok {
			continue
		}
		fld, ok := ast.Unparen(sel.X).(*ast.SelectorExpr)
		if !ok {
			continue
		}
		v := rootLocal(f, fld.X)
		if v == nil {
			continue
		}
		if _, isStruct := v.Type().Underlying().(interface{ NumFields() int }); !isStruct {
			continue
		}
		if _, named := v.Type().(interface{ Obj() interface{} }); named {
			continue
		}
		if !strings.HasPrefix(eng.TypeStr(v.Type()), "struct{") {
			continue
		}
		ft := f.Info().TypeOf(fld)
		if ft == nil || !strings.HasPrefix(eng.TypeStr(ft), "*") {
			continue
		}
		callee := f.Prog.FnOf(calleeFunc(f, cl))
		if callee == nil {
			continue
		}
		pt, _ := g.Where(cl)
		x := f.Norm(fld, &pt)
		okd, _ := g.DominatedAny(pt, []string{"!eq(" + x + ",nil)"})
		x = v.Name() + "." + fld.Sel.Name
		okSafe := nilSafe(c, callee, 0)
		c.r.Check("C19.7", f, "method "+callee.Short+" on optional "+x, "an optional (pointer) child of a decoded element is nil when absent: methods are called on it only under a nil test or if they are nil-safe", cl.Pos(), okd || okSafe, "peer input without the child element makes "+x+" nil and "+callee.Short+" dereferences its receiver")
	}
}

// unreachableBelief: a panic accepted as "unreachable" states a belief about
// the call whose error it guards: that call never fails. Where the callee is
// a function of this library the belief is checked: every return of the
// callee yields a definite nil error. (A callee that starts to return an
// error for extreme values turns the "unreachable" panic into a reachable
// one: encoding then panics instead of writing XML.)
func unreachableBelief(c *cx, id string, f *eng.Fn, panicCall *ast.CallExpr) bool {
	g := f.Graph()
	pt, ok := g.Where(panicCall)
	if !ok {
		return false
	}
	guards := g.DominatingAtoms(pt, "!eq(*#*,nil)")
	found := false
	for _, call := range f.AllCalls() {
		fo, isFn := typeutil.Callee(f.Info(), call).(*types.Func)
		if !isFn {
			continue
		}
		callee := c.p.FnOf(fo.Origin())
		if callee == nil || callee.Body == nil {
			continue
		}
		ei := callee.ErrResultIndex()
		if ei < 0 {
			continue
		}
		cp, okc := g.Where(call)
		if !okc {
			continue
		}
		want := "!eq(" + f.Norm(call, &cp) + "#" + strconv.Itoa(ei) + ",nil)"
		match := false
		for _, a := range guards {
			if a == want {
				match = true
			}
		}
		if !match {
			continue
		}
		found = true
		cg := callee.Graph()
		bad := ""
		for _, rs := range cg.Returns {
			if c.p.Enclosing(rs.Pos()) != callee {
				continue
			}
			op, _ := callee.RetOperand(rs, ei)
			rp, _ := cg.Where(rs)
			if op == nil || cg.NilnessOf(op, rp) != -1 {
				bad = callee.Short + " can return an error at " + c.p.Pos(rs.Pos())
			}
		}
		c.r.Check(id, f, "panic on an error of "+callee.Short, "stated belief: a panic accepted as unreachable guards a call that never fails: every return of the callee yields a nil error", panicCall.Pos(), bad == "", bad)
	}
	return found
}

// noManualEscaping (C19.35 / C13.22): payloads are written as tokens and the
// XML encoder escapes character data and attribute values when it writes
// them. Text that was already passed through xml.EscapeText / xml.Escape /
// html.EscapeString and is then put into a token goes out escaped twice
// ("Tom &amp;amp; Jerry") while the struct-tag path of the same type writes it
// once: the two encoders disagree and the streamed form does not decode to
// the value. Who-may-call: none of the escaping helpers is called in the
// token-producing packages (the raw stream header writer in internal/stream is
// the one place that has to escape by hand, C12.1).
func noManualEscaping(c *cx, id string, in func(f *eng.Fn) bool) {
	n := 0
	for _, f := range c.allFns() {
		if !in(f) {
			continue
		}
		n++
		for _, cl := range f.AllCalls() {
			switch cid := f.CalleeID(cl); cid {
			case "encoding/xml.EscapeText", "encoding/xml.Escape", "html.EscapeString", "text/template.HTMLEscapeString", "text/template.HTMLEscape":
				c.r.Check(id, f, "call of "+cid, "C: text that goes into an XML token is not escaped by hand (the encoder escapes it)", cl.Pos(), false, "the escaped text is escaped again when the token is written")
			}
		}
	}
	c.r.Floor(id, "functions scanned for manual escaping", n, 50)
}

// iteratorValuePerItem (C19.36): the value an iterator reports is derived from
// the item it just moved to. In every Next() bool method of the payload
// packages, each receiver field that Next assigns somewhere (other than the
// error field) is assigned on every path from the entry to a return that may
// be true - a field that is only set when an optional attribute is present
// keeps the previous item's value (the second of <item jid="a"/><item/> is
// reported as "a" again, without an error).
func iteratorValuePerItem(c *cx, id string, in func(f *eng.Fn) bool, floor ...int) {
	n := 0
	for _, f := range c.allFns() {
		if !in(f) || f.Decl == nil || f.Decl.Name.Name != "Next" || f.Decl.Recv == nil {
			continue
		}
		sig := f.Sig()
		if sig == nil || sig.Params().Len() != 0 || sig.Results().Len() != 1 || eng.TypeStr(sig.Results().At(0).Type()) != "bool" {
			continue
		}
		// item iterators only: types called ...Iter; paging.Iter is the
		// transport below them (its page sets change at page boundaries, not
		// per item) and is excluded by name
		rt := eng.TypeStr(sig.Recv().Type())
		if !strings.HasSuffix(rt, "Iter") || strings.HasSuffix(rt, "paging.Iter") {
			continue
		}
		g := f.Graph()
		fields := map[string]bool{}
		for _, w := range f.Writes() {
			sel, ok := ast.Unparen(w.LHS).(*ast.SelectorExpr)
			if !ok {
				continue
			}
			if rid, ok := ast.Unparen(sel.X).(*ast.Ident); !ok || f.Info().ObjectOf(rid) != types.Object(sig.Recv()) {
				continue
			}
			cls, okc := f.FieldClass(sel)
			if !okc || strings.HasSuffix(cls, ".err") {
				continue
			}
			if t := f.Info().TypeOf(sel); t != nil && (eng.TypeStr(t) == "error" || hasMethod(t, "Next")) {
				continue // the error, or the iterator this one wraps
			}
			fields[cls] = true
		}
		for _, cls := range sortedKeys(fields) {
			cls := cls
			isStore := func(q eng.Point, nd ast.Node) bool {
				as, ok := nd.(*ast.AssignStmt)
				if !ok {
					return false
				}
				for _, l := range as.Lhs {
					if k, ok := f.FieldClass(l); ok && k == cls {
						if _, isSel := ast.Unparen(l).(*ast.SelectorExpr); isSel {
							return true
						}
					}
				}
				return false
			}
			for _, rs := range g.Returns {
				if len(rs.Results) != 1 {
					continue
				}
				if cv := f.ConstVal(rs.Results[0]); cv != nil && cv.ExactString() == "false" {
					continue
				}
				// a delegation to the next item (return i.Next()) is judged there
				if cl, ok := ast.Unparen(retResults(f, rs)[0]).(*ast.CallExpr); ok && calleeFunc(f, cl) != nil && calleeFunc(f, cl) == f.Obj {
					continue
				}
				n++
				rp, _ := g.Where(rs)
				// a loop that stores under a condition does not count: the store must be passed on EVERY path
				c.r.Check(id, f, "field "+strings.TrimPrefix(cls, f.Pkg.Types.Name()+".")+" set for the item", "O: every return of Next that may be true has passed an assignment of the reported field (a value left over from the previous item is never reported)", rs.Pos(), g.MustPassBefore(g.Entry(), rp, isStore, nil), "a path reaches this return without assigning the field: the iterator reports the previous item's value for this item")
			}
		}
	}
	c.r.Floor(id, "reported fields of iterators on true returns", n, optFloor(floor, 6))
}

// decodeTargetsAreFresh (C19.37): an UnmarshalXML method decodes into a fresh
// local and then assigns the receiver: encoding/xml leaves the fields of the
// target alone for children and attributes that are absent, so decoding
// straight into the receiver (or one of its fields) keeps the previous
// document's optional values when a value is reused for a second document.
func decodeTargetsAreFresh(c *cx, id string, in func(f *eng.Fn) bool, floor ...int) {
	n := 0
	for _, f := range c.allFns() {
		if !in(f) || f.Decl == nil || f.Decl.Name.Name != "UnmarshalXML" || f.Decl.Recv == nil || f.Sig() == nil {
			continue
		}
		recv := f.Sig().Recv()
		for _, cl := range f.Calls("encoding/xml.Decoder.Decode*") {
			if len(cl.Args) == 0 {
				continue
			}
			n++
			arg := ast.Unparen(cl.Args[0])
			if u, ok := arg.(*ast.UnaryExpr); ok && u.Op == token.AND {
				arg = ast.Unparen(u.X)
			}
			root := rootLocal(f, arg)
			bad := ""
			if root != nil && types.Object(root) == types.Object(recv) {
				bad = "decodes into " + types.ExprString(cl.Args[0])
			}
			c.r.Check(id, f, "decode target "+f.Norm(cl.Args[0], nil), "E-alias: the target of a Decode / DecodeElement in an UnmarshalXML method is not the receiver or one of its fields (what the document leaves out would keep its old value)", cl.Pos(), bad == "", bad+": optional parts absent from this document keep the values of the previous one")
		}
	}
	c.r.Floor(id, "decode calls in UnmarshalXML methods", n, optFloor(floor, 15))
}

// encoderLoopsDoNotFilter (C19.38): an encoder that writes one child per
// element of a slice or map writes one for EVERY element: each iteration of
// the loop reaches the next one only through the statement that adds to the
// output, except where a table below lists the guard under which an element
// is deliberately left out (with the reason). A skipped element is missing
// from the encoded form and the decoded value has fewer entries.
var emissionFilters = map[string][]string{
	// function -> facts under which an iteration may emit nothing
	"upload.marshalHeaders": {"!upload.allowedHeader(*)"}, // XEP-0363 allows three headers only
	// data forms: which values of a field are written depends on the field's
	// type and on the form's type (submit); those filters are decided value by
	// value by C19.25 / C20.6 / C20.7, not by this rule
	"form.(*field).TokenReader": {"*"},
	"form.(*Data).TokenReader":  {"*"},
}

func encoderLoopsDoNotFilter(c *cx, id string, in func(f *eng.Fn) bool, floor ...int) {
	n := 0
	for _, f := range c.allFns() {
		if !in(f) || f.Body == nil {
			continue
		}
		// encoders: functions that return an xml.TokenReader (or a slice of them)
		sig := f.Sig()
		if sig == nil || sig.Results().Len() == 0 {
			continue
		}
		rt := eng.TypeStr(sig.Results().At(0).Type())
		if rt != "encoding/xml.TokenReader" {
			continue
		}
		g := f.Graph()
		f.WalkBody(func(nd ast.Node) bool {
			rs, ok := nd.(*ast.RangeStmt)
			if !ok {
				return true
			}
			// the statement that adds to the output: an append whose operands mention the loop variables
			var vars []types.Object
			for _, e := range []ast.Expr{rs.Key, rs.Value} {
				if idn, ok := e.(*ast.Ident); ok && idn.Name != "_" {
					vars = append(vars, f.Info().ObjectOf(idn))
				}
			}
			if len(vars) == 0 {
				return true
			}
			mentions := func(x ast.Node) bool {
				found := false
				ast.Inspect(x, func(y ast.Node) bool {
					if idn, ok := y.(*ast.Ident); ok {
						for _, v := range vars {
							if f.Info().ObjectOf(idn) == v {
								found = true
							}
						}
					}
					return !found
				})
				return found
			}
			// what is built up inside one iteration (the attributes of the
			// element's own start tag) is not the output
			outside := func(e ast.Expr) bool {
				root := rootLocal(f, e)
				return root == nil || root.Pos() < rs.Body.Pos() || root.Pos() > rs.Body.End()
			}
			isEmit := func(q eng.Point, x ast.Node) bool {
				found := false
				ast.Inspect(x, func(y ast.Node) bool {
					if cl, ok := y.(*ast.CallExpr); ok && f.CalleeID(cl) == "builtin.append" && len(cl.Args) > 1 && outside(cl.Args[0]) {
						for _, a := range cl.Args[1:] {
							if mentions(a) {
								found = true
							}
						}
					}
					// out = combine(out, ... element ...): the accumulator is an
					// operand of the call that is assigned back to it
					if as, ok := y.(*ast.AssignStmt); ok && len(as.Lhs) == 1 && len(as.Rhs) == 1 && outside(as.Lhs[0]) {
						if cl, ok := ast.Unparen(as.Rhs[0]).(*ast.CallExpr); ok && f.CalleeID(cl) != "builtin.append" {
							acc, el := false, false
							for _, a := range cl.Args {
								if sameExpr(a, as.Lhs[0]) {
									acc = true
								} else if mentions(a) {
									el = true
								}
							}
							if acc && el {
								found = true
							}
						}
					}
					// nested loop over the element's own values counts as its emission
					if inner, ok := y.(*ast.RangeStmt); ok && inner != rs && mentions(inner.X) {
						found = true
					}
					return !found
				})
				// go/cfg places the operand of an inner range statement as a node of
				// its own: reaching it is reaching the element's emission loop
				if ex, ok := x.(ast.Expr); ok && !found {
					if inner, ok := g.Parent(ex).(*ast.RangeStmt); ok && inner != rs && inner.X == ex && mentions(ex) {
						found = true
					}
				}
				return found
			}
			hasEmit := false
			ast.Inspect(rs.Body, func(y ast.Node) bool {
				if st, ok := y.(ast.Stmt); ok && isEmit(eng.Point{}, st) {
					hasEmit = true
				}
				return !hasEmit
			})
			if !hasEmit {
				return true
			}
			body, head, done, okp := g.LoopPoints(rs)
			if !okp {
				return true
			}
			n++
			// cut the edges of the listed filters, then ask whether the next
			// iteration can still be reached without emitting
			cut := eng.Cut{}
			for _, pat := range emissionFilters[f.Short] {
				for _, ce := range g.EdgesMatching(pat) {
					cut[ce.E] = true
				}
			}
			okw := !g.Reachable(body, head, cut, isEmit) && !g.Reachable(body, done, cut, isEmit)
			c.r.Check(id, f, "loop over "+f.Norm(rs.X, nil)+" writes every element", "O: each iteration of an encoder's loop adds its element to the output before the next iteration (listed filters excepted)", rs.Pos(), okw, "an iteration can go on without writing its element: the encoded form has fewer entries than the value")
			return true
		})
	}
	c.r.Floor(id, "element loops in encoders", n, optFloor(floor, 5))
}

// decodersKeepEveryElement (C19.39): an UnmarshalXML method that copies a
// decoded list into the receiver keeps every element of it: (a) it stores no
// single ELEMENT of a receiver slice (`recv.F[i] = x` replaces an entry that was
// decoded earlier - "the same owner again" - and its content is lost), and
// (b) a loop over a list of the decode target that appends to a receiver
// field appends on every iteration. The listed decoders filter on purpose.
var decodeFilters = map[string]string{
	"stanza.(*Error).UnmarshalXML": "texts without character data carry nothing (C13.6)",
}

func decodersKeepEveryElement(c *cx, id string, in func(f *eng.Fn) bool, floor ...int) {
	n := 0
	for _, f := range c.allFns() {
		if !in(f) || f.Decl == nil || f.Decl.Name.Name != "UnmarshalXML" || f.Decl.Recv == nil || f.Sig() == nil || f.Body == nil {
			continue
		}
		if _, listed := decodeFilters[f.Short]; listed {
			continue
		}
		recv := f.Sig().Recv()
		g := f.Graph()
		for _, w := range f.Writes() {
			ix, ok := ast.Unparen(w.LHS).(*ast.IndexExpr)
			if !ok {
				continue
			}
			if _, isSlice := f.Info().TypeOf(ix.X).Underlying().(*types.Slice); !isSlice {
				continue
			}
			if root := rootLocal(f, ix.X); root != nil && types.Object(root) == types.Object(recv) {
				if _, isSel := ast.Unparen(ix.X).(*ast.SelectorExpr); isSel {
					n++
					c.r.Check(id, f, "element of a decoded list replaced", "W: a decoder appends to the receiver's lists, it does not overwrite an element it stored earlier", w.Stmt.Pos(), false, "an entry decoded earlier in the same document is replaced: its content is missing from the decoded value")
				}
			}
		}
		f.WalkBody(func(nd ast.Node) bool {
			rs, ok := nd.(*ast.RangeStmt)
			if !ok {
				return true
			}
			vid, _ := rs.Value.(*ast.Ident)
			if vid == nil || vid.Name == "_" {
				return true
			}
			vo := f.Info().ObjectOf(vid)
			isEmit := func(q eng.Point, x ast.Node) bool {
				found := false
				ast.Inspect(x, func(y ast.Node) bool {
					cl, ok := y.(*ast.CallExpr)
					if !ok || f.CalleeID(cl) != "builtin.append" || len(cl.Args) < 2 {
						return !found
					}
					if root := rootLocal(f, cl.Args[0]); root == nil || types.Object(root) != types.Object(recv) {
						return !found
					}
					for _, a := range cl.Args[1:] {
						ast.Inspect(a, func(z ast.Node) bool {
							if idn, ok := z.(*ast.Ident); ok && f.Info().ObjectOf(idn) == vo {
								found = true
							}
							return !found
						})
					}
					return !found
				})
				return found
			}
			has := false
			ast.Inspect(rs.Body, func(y ast.Node) bool {
				if st, ok := y.(ast.Stmt); ok && isEmit(eng.Point{}, st) {
					has = true
				}
				return !has
			})
			if !has {
				return true
			}
			body, head, done, okp := g.LoopPoints(rs)
			if !okp {
				return true
			}
			n++
			okw := !g.Reachable(body, head, nil, isEmit) && !g.Reachable(body, done, nil, isEmit)
			c.r.Check(id, f, "loop over "+f.Norm(rs.X, nil)+" keeps every element", "O: each iteration of a decoder's copy loop appends its element to the receiver's list", rs.Pos(), okw, "an iteration can go on without appending: the element is missing from the decoded value")
			return true
		})
		n++
	}
	c.r.Floor(id, "UnmarshalXML methods examined for dropped elements", n, optFloor(floor, 20))
}
