package rules

import (
	"go/ast"
	"go/types"
	"strings"

	"verif/checker/eng"
)

func init() {
	Registry["C03"] = Rule{
		Meta: eng.Meta{
			Explanation: "Structural necessary conditions of 'Authn only by a completed, accepted SASL exchange', decided on every path of sasl.go: closed list of producers of the Authn bit (C03.1, constant folding), the server's success returns dominated by a nil-error Step of a negotiator built by sasl.NewServer with the application's permission callback passed through unchanged and by the loop-exit fact !more (C03.2-C03.4), mechanism selection only among names both sides offered (C03.3/C03.5), the client's success return dominated on EVERY path by success evidence from the receiver (C03.6) with decodeSASLChallenge's contract checked separately (C03.7), no dropped error in the three SASL functions (C03.8, pending-error dataflow) and the mask applied only after a nil error (C03.9 = C01.7).",
			NotDecided:  "the mechanisms' own state machines (mellium.im/sasl), channel-binding data, what the permission callback decides.",
			Trusted:     trustedCommon,
		},
		Run: runC03,
	}
}

func runC03(p *eng.Prog, r *eng.Report, tier string) {
	c := &cx{p, r, tier}
	r19PermissionsAskedEveryTime(c, "C03.21")
	r19SelectionAsReceived(c, "C03.20")
	r18PermissionsNotDefaulted(c, "C03.19")
	r17ParsedDataAlwaysRecorded(c, "C03.18")
	// C03.17 (= C01.1 / C01.17, imported): the receiving side runs a selected feature only if it was advertised
	// in this step and its prerequisites hold now (SASL selected on a clear stream is refused)
	importRules(c, "C01", []string{"C01.1", "C01.17"}, "C03.17")
	c.r.Floor("C03.16", "reads of the prerequisite masks", prerequisitesOnlyTested(c, "C03.16"), 6)
	bitProducers(c, "C03.1", 2, "Authn", map[string]string{
		"xmpp.negotiateClient":   "",
		"xmpp.negotiateServer":   "",
		"component.Negotiator$1": "eq(*.Name.Local,\"handshake\")",
	}, 4)
	c03Server(c)
	c03Client(c)
	c03Decode(c)
	c03Chain(c)
	c03AdvertisedIsAccepted(c, "C03.11")
	c03SelectionPerRequest(c, "C03.12")
	c03NamesCompared(c, "C03.13")
	c03ExchangeState(c, "C03.14")
	// the SASL feature value is shared by every session that uses it: what one
	// session's Parse saw (the mechanisms its server offered) must not be kept
	// in, or alias, state that another session's Parse overwrites
	c02Closures(c, "C03.10", "xmpp.newSASL")
	errDiscipline(c, "C03.8", []*eng.Fn{c.p.Func("", "negotiateServer"), c.p.Func("", "negotiateClient"), c.p.Func("", "decodeSASLChallenge"), c.p.Func("", "sendSASLError"), c.p.Func("", "decodeIfSASLErr")}, acceptNEG, false)
	// C03.9
	if nf, call := negotiateSite(c, "C01.1"); nf != nil {
		g := nf.Graph()
		pt, _ := g.Where(call)
		cn := nf.Norm(call, &pt)
		for _, w := range nf.FieldWrites("xmpp.Session.state") {
			c.dom("C03.9", nf, w.Stmt, "s.state |= mask", []string{"eq(" + cn + "#2,nil)"})
		}
	}
}

// authnReturns lists the returns of f whose first operand has the Authn bit.
func authnReturns(f *eng.Fn) []*ast.ReturnStmt {
	var out []*ast.ReturnStmt
	for _, rs := range f.Graph().Returns {
		if len(rs.Results) == 0 {
			continue
		}
		if v, ok := f.ConstInt(rs.Results[0]); ok && v&2 != 0 {
			out = append(out, rs)
		}
	}
	return out
}

func c03Server(c *cx) {
	f := c.fn("C03.2", "", "negotiateServer")
	if f == nil {
		return
	}
	g := f.Graph()
	steps := f.Calls("mellium.im/sasl.Negotiator.Step")
	step, ok := one(c, "C03.2", f, "call of sasl.Negotiator.Step", steps)
	if !ok {
		return
	}
	stepPt, _ := g.Where(step)
	sn := f.Norm(step, &stepPt)
	rets := authnReturns(f)
	c.r.Floor("C03.2", "Authn returns of negotiateServer", len(rets), 1)
	for _, rs := range rets {
		pt, _ := g.Where(rs)
		c.r.Check("C03.2", f, "return Authn [Step succeeded]", "G: every path from Step to the Authn return crosses the nil-error edge of that Step", rs.Pos(), g.DominatedFrom(g.After(stepPt), pt, []string{"eq(" + sn + "#2,nil)"}), "a path from Step reaches the Authn return without its error having been found nil")
		c.domAny("C03.2", f, rs, "return Authn [mechanism complete: Step ran and reported !more]", []string{"!" + sn + "#0"})
		c.r.Check("C03.2", f, "return Authn [error operand]", "K: Authn is returned with a nil error only", rs.Pos(), g.RetKindOf(rs) == eng.RetSuccess || g.NilnessOf(rs.Results[len(rs.Results)-1], pt) == -1, "Authn returned together with a possibly non-nil error")
	}
	// `more` is the mechanism's own completion flag
	for _, e := range g.EdgesMatching("!local:*<bool>") {
		for _, a := range e.Atoms {
			for _, v := range a.Vars {
				for _, d := range g.DefsOf(v) {
					okd := false
					switch d.Kind {
					case eng.DefPlain:
						if d.RHS != nil {
							if cv := f.ConstVal(d.RHS); cv != nil && cv.ExactString() == "true" {
								okd = true
							}
						}
					case eng.DefTuple:
						okd = d.Index == 0 && ast.Unparen(d.RHS) == ast.Expr(step)
					}
					c.r.Check("C03.2", f, "definition of the loop flag", "the loop flag is only the constant true (entry) or Step's 'more' result", d.Node.Pos(), okd, "loop flag defined by "+c.p.NodeStr(d.Node))
				}
			}
		}
	}
	// receiver of Step: built by NewServer; nil excluded
	recvSel, _ := ast.Unparen(step.Fun).(*ast.SelectorExpr)
	srv := rootLocal(f, recvSel.X)
	if srv == nil {
		c.r.Check("C03.4", f, "receiver of Step", "receiver is a local negotiator", step.Pos(), false, "receiver is not a local")
		return
	}
	srvStr := "local:" + srv.Name() + "<" + eng.TypeStr(srv.Type()) + ">"
	cut := eng.Cut{}
	for _, ce := range g.EdgesMatching("!eq(" + srvStr + ",nil)") {
		cut[ce.E] = true
	}
	var newServer *ast.CallExpr
	okAll := true
	why := ""
	for _, d := range g.ReachingDefsCut(srv, stepPt, cut) {
		isNew := false
		if d.Kind == eng.DefPlain && d.RHS != nil {
			if call, ok := ast.Unparen(d.RHS).(*ast.CallExpr); ok && f.CalleeID(call) == "mellium.im/sasl.NewServer" {
				isNew = true
				newServer = call
			}
		}
		if !isNew {
			okAll = false
			why = "definition " + c.p.NodeStr(d.Node) + " reaches Step without a nil test"
		}
	}
	c.r.Check("C03.4", f, "Step on the server negotiator", "G: every path to Step carries a negotiator built by sasl.NewServer or passes the server != nil test", step.Pos(), okAll, why)
	// only the auth and response arms lead to Step
	c.domAny("C03.4", f, step, "Step reached only from <auth/> or <response/>", []string{"eq(*Local:\"auth\"*XMLName)", "eq(*Local:\"response\"*XMLName)"})
	// NewServer: selected mechanism and permissions
	if newServer == nil {
		for _, cl := range f.Calls("mellium.im/sasl.NewServer") {
			newServer = cl
		}
	}
	if newServer == nil {
		c.r.Unresolved("C03.3", "call of sasl.NewServer")
		return
	}
	nsPt, _ := g.Where(newServer)
	c.r.Check("C03.3", f, "sasl.NewServer permissions", "P: the application's permission callback is handed to the SASL server unchanged", newServer.Pos(), len(newServer.Args) >= 2 && isParamRef(f, newServer.Args[1], "func(*mellium.im/sasl.Negotiator) bool"), "second argument is "+f.Norm(newServer.Args[1], &nsPt))
	selV := rootLocal(f, newServer.Args[0])
	if selV == nil {
		c.r.Check("C03.3", f, "sasl.NewServer mechanism", "the mechanism is the selected local", newServer.Pos(), false, "first argument is not a local")
		return
	}
	selStr := "local:" + selV.Name() + "<" + eng.TypeStr(selV.Type()) + ">"
	c.dom("C03.3", f, newServer, "sasl.NewServer [a mechanism was selected]", []string{"!eq(" + selStr + ".Name,\"\")"})
	c.dom("C03.3", f, newServer, "sasl.NewServer [<auth/> arm]", []string{"eq(*Local:\"auth\"*XMLName)"})
	c03Selection(c, f, selV, "local:*<*>.Name")
}

// isParamRef: e is a parameter (or captured parameter of the enclosing
// function) of the given type.
func isParamRef(f *eng.Fn, e ast.Expr, typ string) bool {
	n := f.Norm(e, nil)
	if t := f.Info().TypeOf(e); t == nil || eng.TypeStr(t) != typ {
		return false
	}
	if strings.HasPrefix(n, "outer.") {
		n = n[6:]
	}
	return len(n) == 2 && n[0] == 'p'
}

// c03Selection: every non-zero assignment to the selected mechanism takes a
// configured mechanism whose name equals the peer's choice.
func c03Selection(c *cx, f *eng.Fn, selV *types.Var, other string) {
	g := f.Graph()
	n := 0
	for _, d := range g.DefsOf(selV) {
		if d.Kind != eng.DefPlain || d.RHS == nil {
			continue
		}
		rhs := ast.Unparen(d.RHS)
		if _, isLit := rhs.(*ast.CompositeLit); isLit {
			continue // reset to the zero mechanism
		}
		id, isId := rhs.(*ast.Ident)
		var src *eng.Def
		if isId {
			if v := rootLocal(f, id); v != nil {
				src = g.UniqueDef(v, d.At)
			}
		}
		okSrc := src != nil && src.Kind == eng.DefRange && src.Index == 1 && isParamRef(f, src.RHS, "[]mellium.im/sasl.Mechanism")
		if !c.r.Check("C03.5", f, "assignment of the selected mechanism", "the selected mechanism ranges over the configured mechanisms", d.Node.Pos(), okSrc, "selected mechanism assigned from "+c.p.NodeStr(d.RHS)) {
			continue
		}
		n++
		rv := "rangeval(" + f.Norm(src.RHS, nil) + ").Name"
		c.domAny("C03.5", f, d.Node, "assignment of the selected mechanism [name offered by the peer]", []string{"eq(" + other + "," + rv + ")", "eq(" + rv + "," + other + ")"})
	}
	c.r.Floor("C03.5", "mechanism selections in "+f.Short, n, 1)
}

func c03Client(c *cx) {
	f := c.fn("C03.6", "", "negotiateClient")
	if f == nil {
		return
	}
	g := f.Graph()
	rets := authnReturns(f)
	c.r.Floor("C03.6", "Authn returns of negotiateClient", len(rets), 1)
	for _, rs := range rets {
		c.domAny("C03.6", f, rs, "return Authn [success signalled by the receiver]", []string{
			"xmpp.decodeSASLChallenge(*)#1",
			"eq(xmpp.decodeSASLChallenge(*,false)#2,nil)",
		})
		// mechanism complete: no path with more == true
		pt, _ := g.Where(rs)
		c.r.Check("C03.6", f, "return Authn [error operand]", "K: Authn is returned with a nil error only", rs.Pos(), g.NilnessOf(rs.Results[len(rs.Results)-1], pt) == -1, "Authn returned together with a possibly non-nil error")
		c.domAny("C03.6", f, rs, "return Authn [mechanism complete]", []string{"!local:*<bool>", "!mellium.im/sasl.Negotiator.Step[*](*)#0"})
	}
	// every Step error is returned: handled by C03.8; client built on the selected mechanism
	for _, cl := range f.Calls("mellium.im/sasl.NewClient") {
		selV := rootLocal(f, cl.Args[0])
		if selV == nil {
			c.r.Check("C03.5", f, "sasl.NewClient mechanism", "the mechanism is the selected local", cl.Pos(), false, "first argument is not a local")
			continue
		}
		selStr := "local:" + selV.Name() + "<" + eng.TypeStr(selV.Type()) + ">"
		c.dom("C03.5", f, cl, "sasl.NewClient [a mechanism was selected]", []string{"!eq(" + selStr + ".Name,\"\")"})
		c03Selection(c, f, selV, "rangeval(p4.([]string))")
	}
}

func c03Decode(c *cx) {
	f := c.fn("C03.7", "", "decodeSASLChallenge")
	if f == nil {
		return
	}
	g := f.Graph()
	n := 0
	for _, rs := range g.Returns {
		if g.RetKindOf(rs) == eng.RetError {
			continue
		}
		n++
		c.domAny("C03.7", f, rs, "nil-error return [challenge or success element]", []string{"eq(*Local:\"challenge\"*.Name)", "eq(*Local:\"success\"*.Name)"})
		c.domAny("C03.7", f, rs, "nil-error return [challenge only when allowed]", []string{"or(!eq(*.Name.Local,\"challenge\") | p2)", "p2", "!eq(*.Name.Local,\"challenge\")"})
		okFlag := false
		if len(rs.Results) == 3 {
			pt, _ := g.Where(rs)
			if be, isB := ast.Unparen(rs.Results[1]).(*ast.BinaryExpr); isB && eng.Glob("eq(*.Name.Local,\"success\")", g.Formula(rs.Results[1], true, pt).String()) {
				for _, side := range []ast.Expr{be.X, be.Y} {
					if ri := rootIdent(side); ri != nil && f.Info().Uses[ri] == f.Sig().Params().At(1) {
						okFlag = true
					}
				}
			}
		}
		c.r.Check("C03.7", f, "nil-error return [success flag]", "K: the success flag is exactly (element name == \"success\")", rs.Pos(), okFlag, "second result is not start.Name.Local == \"success\"")
		// the payload was decoded, whatever its length: an undecodable payload
		// (three bytes of garbage are enough) must not come back as "empty" with
		// the success flag set
		c.domAny("C03.7", f, rs, "nil-error return [payload decoded]", []string{"eq(encoding/base64.Encoding.Decode[*](*)#1,nil)", "eq(encoding/base64.Encoding.DecodeString[*](*)#1,nil)"})
	}
	c.r.Floor("C03.7", "nil-error returns of decodeSASLChallenge", n, 1)
}

// c03Chain: the permission callback flows SASLServer -> newSASL -> closure ->
// negotiateServer unchanged.
func c03Chain(c *cx) {
	typ := "func(*mellium.im/sasl.Negotiator) bool"
	n := 0
	for _, f := range c.allFns() {
		for _, cl := range f.AllCalls() {
			id := f.CalleeID(cl)
			if id != "xmpp.newSASL" && id != "xmpp.negotiateServer" {
				continue
			}
			for _, a := range cl.Args {
				if t := f.Info().TypeOf(a); t != nil && eng.TypeStr(t) == typ {
					n++
					isNil := f.Norm(a, nil) == "nil"
					okk := isParamRef(f, a, typ) || (isNil && f.Short == "xmpp.SASL")
					c.r.Check("C03.3", f, "permissions argument of "+id, "P: the permission callback is passed through unchanged (nil only from the client constructor SASL)", cl.Pos(), okk, "argument is "+f.Norm(a, nil))
				} else if f.Norm(a, nil) == "nil" && id == "xmpp.newSASL" {
					n++
					c.r.Check("C03.3", f, "permissions argument of "+id, "P: nil permissions only from the client constructor SASL", cl.Pos(), f.Short == "xmpp.SASL", "nil permissions passed from "+f.Short)
				}
			}
		}
	}
	c.r.Floor("C03.3", "permission pass-through sites", n, 3)
}

// c03AdvertisedIsAccepted (C03.11): "a mechanism that both sides did not offer
// is never used" has two halves on the receiving side. negotiateServer accepts
// any mechanism of the configured list by name (C03.3); the other half is that
// the advertisement lists every one of them: in the List closure of newSASL the
// loop over the configured mechanisms writes the mechanism's name on every path
// that reaches the next iteration or the end of the loop (it may leave early
// only by returning). A filter in the advertisement that the acceptance does
// not repeat makes the receiver run a mechanism it did not offer.
func c03AdvertisedIsAccepted(c *cx, id string) {
	f := c.fn(id, "", "newSASL")
	if f == nil {
		return
	}
	n := 0
	for _, l := range f.Lits {
		g := l.Graph()
		l.WalkBody(func(nd ast.Node) bool {
			rs, ok := nd.(*ast.RangeStmt)
			if !ok || !strings.HasPrefix(l.Norm(rs.X, nil), "outer.p") {
				return true
			}
			if t, ok := l.Info().TypeOf(rs.X).Underlying().(*types.Slice); !ok || eng.TypeStr(t.Elem()) != "mellium.im/sasl.Mechanism" {
				return true
			}
			vid, _ := rs.Value.(*ast.Ident)
			if vid == nil || len(l.Calls("*.EncodeToken")) == 0 {
				return true
			}
			vo := l.Info().ObjectOf(vid)
			isEmit := func(q eng.Point, x ast.Node) bool {
				found := false
				ast.Inspect(x, func(y ast.Node) bool {
					cl, ok := y.(*ast.CallExpr)
					if !ok || !eng.Glob("*.EncodeToken", l.CalleeID(cl)) || len(cl.Args) != 1 {
						return !found
					}
					ast.Inspect(cl.Args[0], func(z ast.Node) bool {
						if sel, ok := z.(*ast.SelectorExpr); ok && sel.Sel.Name == "Name" {
							if idn, ok := ast.Unparen(sel.X).(*ast.Ident); ok && l.Info().ObjectOf(idn) == vo {
								found = true
							}
						}
						return !found
					})
					return !found
				})
				return found
			}
			body, head, done, okp := g.LoopPoints(rs)
			if !okp {
				c.r.Unresolved(id, "loop over the configured mechanisms in "+l.Short)
				return true
			}
			n++
			okw := g.MustPassBefore(body, head, isEmit, nil) && g.MustPassBefore(body, done, isEmit, nil)
			c.r.Check(id, l, "every configured mechanism is advertised", "O: each iteration of the advertisement loop writes the mechanism's name before the next iteration starts (what negotiateServer accepts by name is what was offered)", rs.Pos(), okw, "an iteration can go on to the next mechanism without advertising this one: the receiver still accepts it when the peer names it")
			return true
		})
	}
	c.r.Floor(id, "advertisement loops over the configured mechanisms", n, 1)
}

// c03SelectionPerRequest (C03.12): the receiver's exchange loop handles any
// number of <auth/> elements; the mechanism selected for one of them is found
// by a search over the configured mechanisms that stores a hit in a variable
// declared outside the loop. That variable is cleared in every iteration of
// the exchange loop before the search starts (or is declared inside it):
// otherwise an <auth/> that names an unoffered mechanism inherits the
// selection of an earlier <auth/> and is carried on with it instead of being
// refused with <invalid-mechanism/>.
func c03SelectionPerRequest(c *cx, id string) {
	f := c.fn(id, "", "negotiateServer")
	if f == nil {
		return
	}
	g := f.Graph()
	n := 0
	f.WalkBody(func(nd ast.Node) bool {
		rs, ok := nd.(*ast.RangeStmt)
		if !ok {
			return true
		}
		if t, ok := f.Info().TypeOf(rs.X).Underlying().(*types.Slice); !ok || eng.TypeStr(t.Elem()) != "mellium.im/sasl.Mechanism" {
			return true
		}
		vid, _ := rs.Value.(*ast.Ident)
		if vid == nil {
			return true
		}
		vo := f.Info().ObjectOf(vid)
		// the variable that receives a hit
		var hit *types.Var
		for _, w := range f.Writes() {
			if !nodeContains(rs.Body, w.Stmt) || w.RHS == nil {
				continue
			}
			if rid, ok := ast.Unparen(w.RHS).(*ast.Ident); ok && f.Info().ObjectOf(rid) == vo {
				hit = rootLocal(f, w.LHS)
			}
		}
		if hit == nil {
			return true
		}
		n++
		// the enclosing loop of the exchange
		var outer ast.Stmt
		for par := g.Parent(rs); par != nil; par = g.Parent(par) {
			if fs, ok := par.(*ast.ForStmt); ok {
				outer = fs
				break
			}
		}
		_, rp, _, okh := g.LoopPoints(rs)
		if !okh {
			c.r.Unresolved(id, "search loop over the configured mechanisms in negotiateServer")
			return true
		}
		if outer == nil {
			c.r.Check(id, f, "selection variable "+hit.Name()+" cleared per request", "the search runs inside the exchange loop", rs.Pos(), false, "no enclosing loop found")
			return true
		}
		declaredInside := hit.Pos() >= outer.Pos() && hit.Pos() < outer.End()
		body, _, _, okp := g.LoopPoints(outer)
		isReset := func(q eng.Point, x ast.Node) bool {
			as, ok := x.(*ast.AssignStmt)
			if !ok || len(as.Lhs) != 1 || len(as.Rhs) != 1 {
				return false
			}
			if rootLocal(f, as.Lhs[0]) != hit {
				return false
			}
			if _, isSel := ast.Unparen(as.Lhs[0]).(*ast.Ident); !isSel {
				return false
			}
			cl, isLit := ast.Unparen(as.Rhs[0]).(*ast.CompositeLit)
			return isLit && len(cl.Elts) == 0
		}
		okr := declaredInside || (okp && g.MustPassBefore(body, eng.Point{B: rp.B, I: rp.I}, isReset, nil))
		c.r.Check(id, f, "selection variable cleared per request", "O: between the start of an iteration of the exchange loop and the search over the configured mechanisms the variable that receives the hit is reset to its zero value (or it is declared inside the loop)", rs.Pos(), okr, "the selection of an earlier <auth/> survives into this one: a mechanism that was not offered is carried on with the stale selection")
		return true
	})
	c.r.Floor(id, "mechanism searches in negotiateServer", n, 1)
}

// c03NamesCompared (C03.13): "a mechanism that both sides did not offer is never
// used": mechanism names are compared as they are. No function of sasl.go
// (the feature's closures, negotiateClient, negotiateServer) calls a
// string-rewriting or case-folding function: a name that differs from an
// offered one by case ("plain") or by white space ("PLAIN\u00a0") is another
// name.
func c03NamesCompared(c *cx, id string) {
	n := 0
	var scan func(f *eng.Fn)
	scan = func(f *eng.Fn) {
		n++
		for _, cl := range f.AllCalls() {
			cid := f.CalleeID(cl)
			if lossyFuncs[cid] || cid == "strings.EqualFold" || cid == "bytes.EqualFold" {
				c.r.Check(id, f, "call of "+cid, "C: mechanism names are compared byte for byte: no trimming, case folding or replacing in the SASL functions", cl.Pos(), false, "a name that was not offered is taken for one that was")
			}
		}
		for _, l := range f.Lits {
			scan(l)
		}
	}
	for _, name := range []string{"newSASL", "negotiateClient", "negotiateServer"} {
		if f := c.fn(id, "", name); f != nil {
			scan(f)
		}
	}
	c.r.Floor(id, "SASL functions and closures scanned", n, 5)
}

// c03ExchangeState (C03.14 / C03.15): what the receiver's exchange loop carries
// from one element to the next is the selected mechanism (cleared per <auth/>,
// C03.12), the mechanism's state machine, the last response and the loop
// condition - nothing else: every other variable the loop body assigns is
// declared inside the loop, so that the mechanism attribute, the payload or
// the decoded bytes of an earlier element cannot leak into the next
// (encoding/xml leaves absent attributes of a reused target alone; an empty
// "=" response decoded into a reused buffer repeats the previous bytes).
// And an <abort/> ends the exchange: from its arm the loop head is unreachable.
func c03ExchangeState(c *cx, id string) {
	f := c.fn(id, "", "negotiateServer")
	if f == nil {
		return
	}
	g := f.Graph()
	var loop *ast.ForStmt
	f.WalkBody(func(nd ast.Node) bool {
		if fs, ok := nd.(*ast.ForStmt); ok && loop == nil {
			loop = fs
		}
		return true
	})
	if loop == nil {
		c.r.Unresolved(id, "exchange loop of negotiateServer")
		return
	}
	carried := map[string]bool{}
	for _, w := range f.Writes() {
		if !nodeContains(loop.Body, w.Stmt) {
			continue
		}
		v := rootLocal(f, w.LHS)
		if v == nil || !eng.IsLocal(v) {
			continue
		}
		if v.Pos() >= loop.Pos() && v.Pos() < loop.End() {
			continue // declared inside the loop (or its header)
		}
		carried[eng.TypeStr(v.Type())] = true
		okT := false
		switch eng.TypeStr(v.Type()) {
		case "mellium.im/sasl.Mechanism", "*mellium.im/sasl.Negotiator", "error", "bool":
			okT = true
		case "[]byte":
			// the response of the previous step: assigned whole from Step, never
			// used as a decoding buffer
			okT = w.RHS == nil || !strings.Contains(f.Norm(w.RHS, nil), "make(")
			if as, ok := w.Stmt.(*ast.AssignStmt); ok && len(as.Rhs) == 1 {
				if cl, ok := ast.Unparen(as.Rhs[0]).(*ast.CallExpr); ok {
					okT = strings.HasSuffix(f.CalleeID(cl), "Negotiator.Step")
				}
			}
		}
		c.r.Check(id, f, "variable of type "+eng.TypeStr(v.Type())+" carried across elements of the exchange", "W: the loop body assigns variables declared outside the loop only for the selected mechanism, the state machine, the step's response and errors", w.Stmt.Pos(), okT, "state of an earlier <auth/> / <response/> (its attributes, payload or decoded bytes) survives into the next element")
	}
	c.r.Floor(id, "kinds of state carried by the exchange loop", len(carried), 2)
	// abort terminates
	_, head, _, okp := g.LoopPoints(loop)
	na := 0
	if okp {
		for _, ce := range g.CondEdges() {
			isAbort := false
			for _, a := range ce.Atoms {
				if !strings.HasPrefix(a.S, "!") && strings.Contains(a.S, "Local:\"abort\"") {
					isAbort = true
				}
			}
			if !isAbort {
				continue
			}
			na++
			c.r.Check("C03.15", f, "abort ends the exchange", "O: from the arm of <abort/> the next iteration of the exchange loop is unreachable (the exchange is over; a later <response/> must not complete it)", f.Pos(), !g.Reachable(g.EdgeTarget(ce.E), head, nil, nil), "after <abort/> the loop goes on with the selected mechanism and its state machine still in place: responses complete an exchange that was aborted")
		}
	}
	c.r.Floor("C03.15", "abort arms in negotiateServer", na, 1)
}
