package rules

import (
	"go/ast"
	"go/token"
	"go/types"

	"golang.org/x/tools/go/cfg"

	"verif/checker/eng"
)

// receivedCloserNotDropped (C06.30): a value with a Close method that a
// function takes out of a channel is the function's to look after: the sender
// (the serve loop handing over a response, the ibb handler handing over a
// stream) waits for it to be closed or has given up its own reference. On
// every path from the receive to a return the value is passed on - returned,
// handed to a call, sent, stored - or closed (a deferred Close counts from the
// defer statement). A path that tests the context once more after taking the
// response and returns the context's error drops it: the serve loop waits for
// that response to be closed for ever.
//
// Returns the number of receives examined.
func receivedCloserNotDropped(c *cx, id string, inScope func(f *eng.Fn) bool) int {
	n := 0
	for _, f := range c.allFns() {
		if !inScope(f) {
			continue
		}
		g := f.Graph()
		commOf := map[*ast.AssignStmt]*ast.CommClause{}
		f.WalkBody(func(nd ast.Node) bool {
			if cc, ok := nd.(*ast.CommClause); ok {
				if a, ok := cc.Comm.(*ast.AssignStmt); ok {
					commOf[a] = cc
				}
			}
			return true
		})
		f.WalkBody(func(nd ast.Node) bool {
			as, ok := nd.(*ast.AssignStmt)
			if !ok || len(as.Rhs) != 1 || len(as.Lhs) == 0 {
				return true
			}
			ue, ok := ast.Unparen(as.Rhs[0]).(*ast.UnaryExpr)
			if !ok || ue.Op != token.ARROW {
				return true
			}
			v := g.LocalVar(as.Lhs[0])
			if v == nil || !(hasCloseMethod(v.Type()) || hasChanField(v.Type())) {
				return true
			}
			n++
			pt, okp := g.Where(as)
			start := g.After(pt)
			if cc := commOf[as]; cc != nil {
				// the comm statements of a select sit in the block of the
				// select itself: start at the clause's body
				okp = false
				for _, b := range g.Blocks {
					if b.Kind == cfg.KindSelectCaseBody && b.Stmt == ast.Stmt(cc) {
						start, okp = eng.Point{B: int(b.Index), I: 0}, true
					}
				}
			}
			if !okp {
				c.r.Check(id, f, "received "+v.Name(), "site is placed in the control-flow graph", as.Pos(), false, "receive not found in the graph")
				return true
			}
			// what counts as looking after the value: handing the whole value
			// on (argument, return operand, send, store), closing it, or - for
			// a hand-off record - a channel operation on one of its channels.
			// Reading a field to decide something is not.
			uses := func(x ast.Node) bool {
				found := false
				var visit func(m ast.Node) bool
				visit = func(m ast.Node) bool {
					if found {
						return false
					}
					switch y := m.(type) {
					case *ast.BinaryExpr:
						if (y.Op == token.EQL || y.Op == token.NEQ) && (isNilIdent(f, y.X) || isNilIdent(f, y.Y)) {
							return false // a nil test does not look after the value
						}
					case *ast.SelectorExpr:
						if idn, ok := ast.Unparen(y.X).(*ast.Ident); ok && f.Info().Uses[idn] == types.Object(v) {
							if y.Sel.Name == "Close" {
								found = true
							} else if t := f.Info().TypeOf(y); t != nil {
								if _, isChan := t.Underlying().(*types.Chan); isChan {
									found = true
								}
							}
							return false
						}
					case *ast.Ident:
						if f.Info().Uses[y] == types.Object(v) {
							found = true
						}
					}
					return true
				}
				ast.Inspect(x, visit)
				return found
			}
			stop := func(p eng.Point, x ast.Node) bool {
				if x == nil || x == ast.Node(as) || x == ast.Node(ue) || x == ast.Node(as.Lhs[0]) {
					return false
				}
				if _, isRet := x.(*ast.ReturnStmt); isRet {
					return false
				}
				return uses(x)
			}
			// `v, ok := <-ch`: behind !ok the channel was closed and there is
			// no value
			cut := eng.Cut{}
			if len(as.Lhs) == 2 {
				if okv := g.LocalVar(as.Lhs[1]); okv != nil {
					for _, b := range g.Blocks {
						if len(b.Succs) != 2 || len(b.Nodes) == 0 {
							continue
						}
						cond, isExpr := b.Nodes[len(b.Nodes)-1].(ast.Expr)
						if !isExpr {
							continue
						}
						cond = ast.Unparen(resolveBool(f, cond))
						neg := false
						if ue, isNot := cond.(*ast.UnaryExpr); isNot && ue.Op == token.NOT {
							cond, neg = ast.Unparen(ue.X), true
						}
						if g.LocalVar(cond) != okv {
							continue
						}
						if neg {
							cut[eng.Edge{B: int(b.Index), S: 0}] = true
						} else {
							cut[eng.Edge{B: int(b.Index), S: 1}] = true
						}
					}
				}
			}
			bad := token.NoPos
			for _, rs := range g.Returns {
				rp, ok := g.Where(rs)
				if !ok || uses(rs) {
					continue
				}
				if g.Reachable(start, rp, cut, stop) {
					bad = rs.Pos()
					break
				}
			}
			why := ""
			if bad != token.NoPos {
				why = "the return at " + c.p.Fset.Position(bad).String() + " is reached from the receive without the value being returned, handed on or closed: whoever sent it waits for its Close for ever"
			}
			c.r.Check(id, f, "value received into "+v.Name(), "O: a closer or hand-off record taken out of a channel is returned, handed on, closed or signalled on every path to a return", as.Pos(), bad == token.NoPos, why)
			return true
		})
	}
	return n
}

func hasCloseMethod(t types.Type) bool {
	ms := types.NewMethodSet(t)
	for i := 0; i < ms.Len(); i++ {
		if ms.At(i).Obj().Name() == "Close" {
			return true
		}
	}
	if _, isPtr := t.(*types.Pointer); !isPtr {
		ms = types.NewMethodSet(types.NewPointer(t))
		for i := 0; i < ms.Len(); i++ {
			if ms.At(i).Obj().Name() == "Close" {
				return true
			}
		}
	}
	return false
}

// hasChanField: a struct with a channel-typed field (a hand-off record: the
// other side waits on one of its channels).
func hasChanField(t types.Type) bool {
	if p, ok := t.Underlying().(*types.Pointer); ok {
		t = p.Elem()
	}
	st, ok := t.Underlying().(*types.Struct)
	if !ok {
		return false
	}
	for i := 0; i < st.NumFields(); i++ {
		if _, isChan := st.Field(i).Type().Underlying().(*types.Chan); isChan {
			return true
		}
	}
	return false
}
