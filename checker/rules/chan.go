package rules

import (
	"fmt"
	"go/ast"
	"go/token"
	"go/types"
	"sort"
	"strings"

	"verif/checker/eng"
)

// chanOp is one channel operation.
type chanOp struct {
	fn       *eng.Fn
	node     ast.Node
	kind     string // send, recv, close, make
	class    string
	inSelect bool
	hasDef   bool // the select has a default arm
	escape   bool // the select has an arm receiving from a Done()/done channel
	cap      int64
	capKnown bool
}

// chanClass names the channel an expression denotes: the field class of a
// struct field, "M[]" for the values of a map field M, or a function-local
// name. Locals are traced through their definitions and through the field or
// map element they are stored into.
func chanClass(f *eng.Fn, e ast.Expr, depth int) string {
	e = ast.Unparen(e)
	if k, ok := f.FieldClass(e); ok {
		return k
	}
	g := f.Graph()
	switch x := e.(type) {
	case *ast.IndexExpr:
		if k, ok := f.FieldClass(x.X); ok {
			return k + "[]"
		}
	case *ast.Ident:
		v := rootLocal(f, x)
		if v == nil || depth > 3 {
			break
		}
		// parameter: class by parameter type position
		// definitions
		for _, d := range g.DefsOf(v) {
			if d.RHS == nil {
				continue
			}
			switch r := ast.Unparen(d.RHS).(type) {
			case *ast.IndexExpr:
				if k, ok := f.FieldClass(r.X); ok {
					return k + "[]"
				}
			case *ast.SelectorExpr:
				if k, ok := f.FieldClass(r); ok {
					return k
				}
			case *ast.UnaryExpr:
				if r.Op == token.ARROW {
					// received from a channel of channels/structs: not traced
				}
			}
		}
		// stored into a field / map element / literal field in this function
		cls := ""
		f.WalkBody(func(n ast.Node) bool {
			switch s := n.(type) {
			case *ast.AssignStmt:
				for i, r := range s.Rhs {
					if id, ok := ast.Unparen(r).(*ast.Ident); ok && f.Info().Uses[id] == types.Object(v) && i < len(s.Lhs) {
						if c := chanClass(f, s.Lhs[i], depth+1); c != "" && !strings.HasPrefix(c, "local:") {
							cls = c
						}
					}
				}
			case *ast.KeyValueExpr:
				if id, ok := ast.Unparen(s.Value).(*ast.Ident); ok && f.Info().Uses[id] == types.Object(v) {
					if cl, ok := g.Parent(s).(*ast.CompositeLit); ok {
						if k, ok := s.Key.(*ast.Ident); ok {
							t := f.Info().TypeOf(cl)
							if t != nil {
								cls = eng.TypeStr(t) + "." + k.Name
							}
						}
					}
				}
			}
			return true
		})
		if cls != "" {
			return cls
		}
		return "local:" + f.Short + ":" + v.Name()
	case *ast.SelectorExpr:
		// field of a non-named struct etc.
		return "expr:" + f.Norm(e, nil)
	}
	return "expr:" + f.Norm(e, nil)
}

func isDoneRecv(f *eng.Fn, e ast.Expr) bool {
	u, ok := ast.Unparen(e).(*ast.UnaryExpr)
	if !ok || u.Op != token.ARROW {
		return false
	}
	n := f.Norm(u.X, nil)
	return strings.HasPrefix(n, "context.Context.Done[") || strings.HasSuffix(n, ".done") || strings.HasSuffix(n, "Done()")
}

// chanOps collects the channel operations of f.
func chanOps(f *eng.Fn) []chanOp {
	var out []chanOp
	g := f.Graph()
	inComm := map[ast.Node]*ast.SelectStmt{}
	f.WalkBody(func(n ast.Node) bool {
		if sel, ok := n.(*ast.SelectStmt); ok {
			for _, c := range sel.Body.List {
				cc := c.(*ast.CommClause)
				if cc.Comm != nil {
					ast.Inspect(cc.Comm, func(x ast.Node) bool {
						if x != nil {
							inComm[x] = sel
						}
						return true
					})
				}
			}
		}
		return true
	})
	selInfo := func(sel *ast.SelectStmt) (hasDef, escape bool) {
		for _, c := range sel.Body.List {
			cc := c.(*ast.CommClause)
			if cc.Comm == nil {
				hasDef = true
				continue
			}
			var e ast.Expr
			switch s := cc.Comm.(type) {
			case *ast.ExprStmt:
				e = s.X
			case *ast.AssignStmt:
				e = s.Rhs[0]
			}
			if e != nil && isDoneRecv(f, e) {
				escape = true
			}
		}
		return
	}
	f.WalkBody(func(n ast.Node) bool {
		switch s := n.(type) {
		case *ast.SendStmt:
			op := chanOp{fn: f, node: s, kind: "send", class: chanClass(f, s.Chan, 0)}
			if sel, ok := inComm[s]; ok {
				op.inSelect = true
				op.hasDef, op.escape = selInfo(sel)
			}
			out = append(out, op)
		case *ast.UnaryExpr:
			if s.Op != token.ARROW {
				return true
			}
			op := chanOp{fn: f, node: s, kind: "recv", class: chanClass(f, s.X, 0)}
			if sel, ok := inComm[s]; ok {
				op.inSelect = true
				op.hasDef, op.escape = selInfo(sel)
			}
			out = append(out, op)
		case *ast.RangeStmt:
			if _, ok := f.Info().TypeOf(s.X).Underlying().(*types.Chan); ok {
				out = append(out, chanOp{fn: f, node: s, kind: "recv", class: chanClass(f, s.X, 0)})
			}
		case *ast.CallExpr:
			switch f.CalleeID(s) {
			case "builtin.close":
				out = append(out, chanOp{fn: f, node: s, kind: "close", class: chanClass(f, s.Args[0], 0)})
			case "builtin.make":
				if _, ok := f.Info().TypeOf(s).Underlying().(*types.Chan); ok {
					op := chanOp{fn: f, node: s, kind: "make"}
					if len(s.Args) >= 2 {
						if v, ok := f.ConstInt(s.Args[1]); ok {
							op.cap, op.capKnown = v, true
						}
					} else {
						op.cap, op.capKnown = 0, true
					}
					// class: where the made channel is stored
					switch p := g.Parent(s).(type) {
					case *ast.AssignStmt:
						for i, r := range p.Rhs {
							if r == ast.Expr(s) && i < len(p.Lhs) {
								op.class = chanClass(f, p.Lhs[i], 0)
							}
						}
					case *ast.KeyValueExpr:
						if cl, ok := g.Parent(p).(*ast.CompositeLit); ok {
							if k, ok := p.Key.(*ast.Ident); ok {
								op.class = eng.TypeStr(f.Info().TypeOf(cl)) + "." + k.Name
							}
						}
					case *ast.ValueSpec:
						if len(p.Names) == 1 {
							op.class = chanClass(f, p.Names[0], 0)
						}
					}
					if op.class == "" {
						op.class = "expr:make@" + f.Short
					}
					out = append(out, op)
				}
			}
		}
		return true
	})
	return out
}

var acceptChan = []accept{
	{"xmpp.handleInputStream", "recv xmpp.tokenReadChan.c", "the serve loop waits for the documented Close of the response it just handed to the waiting caller (escape: that caller's Close; SendIQ documents that the response must be closed)"},
	{"xmpp.handleInputStream", "close-vs-send xmpp.tokenReadChan.c", "protocol-ordered: the only close is iqResponder.Close by the caller that received this very send; the registration is removed (sendResp's deferred delete) before the caller can close, so no later send can reach the closed channel"},
	{"xmpp.iqResponder.Close", "close-vs-send xmpp.tokenReadChan.c", "see handleInputStream"},
}

// chanRules: blocking channel operations in handler code (C06.3) and
// send/close conflicts and lost wake-ups per channel class (C06.4).
func chanRules(c *cx, id string, scope []*eng.Fn, why map[*eng.Fn]string) {
	chanRulesFiltered(c, id, scope, why, "")
}

// chanRulesFiltered restricts the per-class rules to classes with the prefix.
func chanRulesFiltered(c *cx, id string, scope []*eng.Fn, why map[*eng.Fn]string, prefix string) {
	inScope := map[*eng.Fn]bool{}
	for _, f := range scope {
		inScope[f] = true
	}
	// all operations of the library, by class
	byClass := map[string][]chanOp{}
	for _, f := range c.allFns() {
		for _, op := range chanOps(f) {
			cls := op.class
			// iqResponder.c and tokenReadChan.c are one channel (literal in handleInputStream / sendResp)
			if cls == "xmpp.iqResponder.c" {
				cls = "xmpp.tokenReadChan.c"
			}
			op.class = cls
			byClass[cls] = append(byClass[cls], op)
		}
	}
	var classes []string
	for k := range byClass {
		if prefix != "" && !strings.HasPrefix(k, prefix) {
			continue
		}
		classes = append(classes, k)
	}
	sort.Strings(classes)
	nBlock := 0
	// ---- blocking operations in handler scope ---------------------------------
	for _, cls := range classes {
		for _, op := range byClass[cls] {
			if !inScope[op.fn] || (op.kind != "send" && op.kind != "recv") {
				continue
			}
			if op.inSelect && (op.hasDef || op.escape) {
				nBlock++
				c.r.Check(id+"a", op.fn, op.kind+" "+cls+" (select with escape)", "every channel operation on the serve path has an escape arm (default, ctx.Done(), done channel)", op.node.Pos(), true, "")
				continue
			}
			nBlock++
			wy, ok := accepted(acceptChan, op.fn.Short, op.kind+" "+cls)
			// a receive from a function-local channel that a goroutine started in the
			// same function closes ends when that goroutine (an application callback) returns
			if !ok && op.kind == "recv" && strings.HasPrefix(cls, "local:") {
				for _, o2 := range byClass[cls] {
					if o2.kind == "close" && o2.fn.Parent == op.fn {
						ok, wy = true, "local channel closed by a goroutine started in the same function"
					}
				}
				for _, l := range op.fn.Lits {
					for _, o2 := range chanOps(l) {
						if o2.kind == "close" && strings.HasSuffix(o2.class, ":"+cls[strings.LastIndex(cls, ":")+1:]) {
							ok, wy = true, "local channel closed by a goroutine started in the same function"
						}
					}
				}
			}
			// a plain send on a buffered class that is sent at most once per make is non-blocking:
			if !ok && op.kind == "send" {
				allBuf := true
				nm := 0
				for _, m := range byClass[cls] {
					if m.kind == "make" {
						nm++
						if !m.capKnown || m.cap < 1 {
							allBuf = false
						}
					}
				}
				if nm > 0 && allBuf {
					if once, reason := sentOncePerMake(c, op, cls, byClass[cls]); once {
						ok, wy = true, "every make of this class has capacity >= 1 and the channel gets at most one send per make: "+reason
					} else {
						wy = "capacity >= 1 alone does not make a plain send non-blocking: " + reason
					}
				}
			}
			c.r.Check(id+"a", op.fn, "blocking "+op.kind+" on "+cls, "every channel operation on the serve path has an escape arm or is non-blocking ("+wy+")", op.node.Pos(), ok, wy+"; unguarded blocking "+op.kind+" in handler code: the serve loop stalls until another goroutine is ready; reached via "+why[op.fn])
		}
	}
	if prefix == "" {
		c.r.Floor(id+"a", "channel operations on the serve path", nBlock, 5)
	}
	// ---- per class: send vs close, capacity vs non-blocking notify -----------------
	for _, cls := range classes {
		ops := byClass[cls]
		var sends, closes, makes []chanOp
		for _, op := range ops {
			switch op.kind {
			case "send":
				sends = append(sends, op)
			case "close":
				closes = append(closes, op)
			case "make":
				makes = append(makes, op)
			}
		}
		if strings.HasPrefix(cls, "local:") || strings.HasPrefix(cls, "expr:") {
			// function-local channels: a close and a send in the same function family are ordered by that function
			continue
		}
		for _, cl := range closes {
			for _, sd := range sends {
				key := "close-vs-send " + cls
				if _, ok := accepted(acceptChan, sd.fn.Short, key); ok {
					c.r.Check(id+"b", sd.fn, key+" (accepted)", "send/close conflict: protocol-ordered (accept table)", sd.node.Pos(), true, "")
					continue
				}
				l1, _ := cl.fn.Graph().Locks(lockEntry[cl.fn.Short]).AtNode(cl.node)
				l2, _ := sd.fn.Graph().Locks(lockEntry[sd.fn.Short]).AtNode(sd.node)
				common := ""
				for k := range l1 {
					if _, ok := l2[k]; ok {
						common = k
					}
				}
				c.r.Check(id+"b", sd.fn, fmt.Sprintf("send on %s vs close in %s", cls, cl.fn.Short), "E-lock: a send and a close of the same channel class run under one common lock (otherwise the send can hit the closed channel and panic)", sd.node.Pos(), common != "",
					fmt.Sprintf("send at %s (locks %s) and close at %s (locks %s) share no lock", c.p.Pos(sd.node.Pos()), l2.String(), c.p.Pos(cl.node.Pos()), l1.String()))
			}
		}
		// non-blocking notify needs a buffer
		for _, sd := range sends {
			if !(sd.inSelect && sd.hasDef) {
				continue
			}
			for _, m := range makes {
				c.r.Check(id+"c", m.fn, "capacity of "+cls, "a channel that is notified with a non-blocking send (select/default) has capacity >= 1, otherwise a notification that arrives before the waiter reaches its receive is lost", m.node.Pos(), m.capKnown && m.cap >= 1,
					fmt.Sprintf("made with capacity %d but notified without blocking at %s: lost wake-up", m.cap, c.p.Pos(sd.node.Pos())))
			}
		}
	}
}

// sentOncePerMake: a plain send on a buffered channel cannot block if the
// channel receives at most one send after it was made. Evidence accepted: the
// channel is taken from a table entry (v, ok := T[k]) that is deleted from the
// table on every path between the lookup and the send (so no second send finds
// it), and every store into T stores an entry whose channel was made in the
// same function on every path to the store (a fresh channel per registration).
func sentOncePerMake(c *cx, op chanOp, cls string, classOps []chanOp) (bool, string) {
	f := op.fn
	g := f.Graph()
	snd, ok := op.node.(*ast.SendStmt)
	if !ok {
		return false, "not a send statement"
	}
	pt, okp := g.Where(snd)
	root := rootIdent(snd.Chan)
	if !okp || root == nil {
		return false, "the channel is not reached through a local"
	}
	v, _ := f.Info().ObjectOf(root).(*types.Var)
	if v == nil {
		return false, "the channel is not reached through a local"
	}
	defs := g.ReachingDefs(v, pt)
	if len(defs) == 0 {
		return false, "no definition of " + v.Name() + " reaches the send"
	}
	table := ""
	for _, d := range defs {
		ix, isIx := ast.Unparen(d.RHS).(*ast.IndexExpr)
		if d.RHS == nil || !isIx || (d.Kind != eng.DefCommaOk && d.Kind != eng.DefPlain) || d.Index != 0 {
			return false, "the channel does not come from a table lookup"
		}
		t, okt := f.FieldClass(ix.X)
		if !okt || (table != "" && t != table) {
			return false, "the channel does not come from a table held in a field"
		}
		table = t
		isDel := func(q eng.Point, nd ast.Node) bool {
			found := false
			ast.Inspect(nd, func(x ast.Node) bool {
				if cl, ok := x.(*ast.CallExpr); ok && f.CalleeID(cl) == "builtin.delete" && len(cl.Args) == 2 {
					if k, _ := f.FieldClass(cl.Args[0]); k == table {
						found = true
					}
				}
				return !found
			})
			return found
		}
		if !g.MustPassBefore(g.After(d.At), pt, isDel, nil) {
			return false, "the entry is not removed from " + table + " on every path between the lookup and the send (a second send can find the same channel)"
		}
	}
	// every registration stores a fresh channel
	nstores := 0
	for _, sf := range c.allFns() {
		for _, mu := range sf.MapUpdates() {
			if mu.Delete {
				continue
			}
			if k, _ := sf.FieldClass(mu.Map); k != table {
				continue
			}
			nstores++
			sg := sf.Graph()
			spt, oks := sg.Where(mu.Node)
			if !oks {
				return false, "store into " + table + " not located"
			}
			var makes []ast.Node
			for _, m := range chanOps(sf) {
				if m.kind == "make" && (m.class == cls || strings.HasPrefix(m.class, "local:")) {
					makes = append(makes, m.node)
				}
			}
			isMake := func(q eng.Point, nd ast.Node) bool {
				for _, m := range makes {
					if containsNode(nd, m) {
						return true
					}
				}
				return false
			}
			if len(makes) == 0 || !(isMake(spt, mu.Node) || sg.MustPassBefore(sg.Entry(), spt, isMake, nil)) {
				return false, sf.Short + " stores an entry into " + table + " (" + c.p.Pos(mu.Node.Pos()) + ") without making a new channel first: the same channel can be registered, and sent to, again"
			}
		}
	}
	if nstores == 0 {
		return false, "no store into " + table + " found"
	}
	return true, "taken out of " + table + " before the send; every registration makes a new channel"
}
