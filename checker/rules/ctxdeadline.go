package rules

import (
	"go/ast"
	"go/types"
	"strings"

	"verif/checker/eng"
)

// waitBoundedByDeadline: the blocking waits of an in-band bytestream (the
// acknowledged data packet, the close request) end with the context's error
// when the peer does not answer; the context is the write deadline. In
// package ibb a context that reaches a call or a return must not be the
// unbounded context.Background()/TODO() on any path other than through the
// edge that establishes "the deadline is zero": a deadline that is set -
// also one that has already passed - bounds the wait. Decided with the
// reaching definitions of the context variable at each use, computed with the
// IsZero-true edges removed.
func waitBoundedByDeadline(c *cx, id string, rel string, floor int) {
	n := 0
	isCtx := func(t types.Type) bool { return t != nil && eng.TypeStr(t) == "context.Context" }
	for _, f := range c.allFns() {
		if !strings.HasPrefix(f.Short, rel+".") {
			continue
		}
		unbounded := func(e ast.Expr) bool {
			cl, ok := ast.Unparen(e).(*ast.CallExpr)
			if !ok {
				return false
			}
			cid := f.CalleeID(cl)
			return cid == "context.Background" || cid == "context.TODO"
		}
		has := false
		f.WalkBody(func(nd ast.Node) bool {
			if e, ok := nd.(ast.Expr); ok && unbounded(e) {
				has = true
			}
			return true
		})
		if !has {
			continue
		}
		g := f.Graph()
		cut := eng.Cut{}
		for _, ce := range g.EdgesMatching("time.Time.IsZero[*eadline*]()") {
			cut[ce.E] = true
		}
		check := func(use ast.Node, e ast.Expr, what string) {
			if !isCtx(f.Info().TypeOf(e)) {
				return
			}
			pt, ok := g.Where(use)
			if !ok {
				return
			}
			bad := ""
			if unbounded(e) {
				if okd, _ := g.Dominated(pt, "time.Time.IsZero[*eadline*]()"); !okd {
					bad = "context.Background() is used here although a deadline may be set"
				}
			} else if idn, ok := ast.Unparen(e).(*ast.Ident); ok {
				v, _ := f.Info().ObjectOf(idn).(*types.Var)
				if v == nil || !eng.IsLocal(v) {
					return
				}
				for _, d := range g.ReachingDefsCut(v, pt, cut) {
					if d.RHS != nil && unbounded(d.RHS) {
						bad = "the unbounded context defined at " + c.p.Pos(d.Node.Pos()) + " reaches this use on a path that has not established that the deadline is zero"
					}
				}
			} else {
				return
			}
			n++
			c.r.Check(id, f, what, "O: a context that bounds a wait for the peer is context.Background() only where the stream's deadline is zero; a deadline that is set (also one in the past) ends the wait", use.Pos(), bad == "", bad+": with a peer that does not answer the call blocks for ever")
		}
		f.WalkBody(func(nd ast.Node) bool {
			switch x := nd.(type) {
			case *ast.CallExpr:
				cid := f.CalleeID(x)
				if strings.HasPrefix(cid, "context.With") {
					return true // a derivation: the derived context is what is checked
				}
				for i, a := range x.Args {
					check(x, a, "context argument "+itoa(i)+" of "+cid)
				}
			case *ast.ReturnStmt:
				for i, a := range x.Results {
					check(x, a, "context result "+itoa(i))
				}
			}
			return true
		})
	}
	c.r.Floor(id, "uses of a deadline-derived context in "+rel, n, floor)
}
