package rules

import (
	"go/ast"

	"verif/checker/eng"
)

// innerElementAfterItsStart (C19.48): xmlstream.InnerElement(r) yields the
// tokens up to the end of the element r is INSIDE of: the element's start tag
// has been read. Applied to a reader that stands in front of an element it
// runs to the end of whatever encloses that element: a publish helper copies
// every following element of the caller's reader into the <item/>, or the
// parent's end tag into the IQ. Every call of InnerElement in the module is
// preceded on every path by a Token() read from the same reader.
func innerElementAfterItsStart(c *cx, id string) int {
	n := 0
	for _, f := range c.allFns() {
		g := f.Graph()
		for _, cl := range f.Calls("mellium.im/xmlstream.InnerElement") {
			if len(cl.Args) != 1 {
				continue
			}
			n++
			rdr := f.Norm(cl.Args[0], nil)
			pt, ok := g.Where(cl)
			if !ok {
				// inside a composite expression: find the statement
				var stmt ast.Node = cl
				for stmt != nil {
					if _, placed := g.Where(stmt); placed {
						break
					}
					stmt = g.Parent(stmt)
				}
				pt, ok = g.Where(stmt)
			}
			if !ok {
				c.r.Check(id, f, "InnerElement over "+rdr, "site placed in the graph", cl.Pos(), false, "call not found in the control-flow graph")
				continue
			}
			popped := func(q eng.Point, nd ast.Node) bool {
				found := false
				ast.Inspect(nd, func(x ast.Node) bool {
					tc, ok := x.(*ast.CallExpr)
					if !ok {
						return !found
					}
					if sel, ok := ast.Unparen(tc.Fun).(*ast.SelectorExpr); ok && sel.Sel.Name == "Token" && len(tc.Args) == 0 && f.Norm(sel.X, nil) == rdr {
						found = true
					}
					return !found
				})
				return found
			}
			okp := g.MustPassBefore(g.Entry(), pt, popped, nil)
			if !okp {
				// a helper that is given the start element its caller has read:
				// MultiReader(Token(<start parameter>), InnerElement(r))
				if mr, isCall := g.Parent(cl).(*ast.CallExpr); isCall && f.CalleeID(mr) == "mellium.im/xmlstream.MultiReader" {
					for _, a := range mr.Args {
						if a == ast.Expr(cl) {
							break
						}
						if tc, isTok := ast.Unparen(a).(*ast.CallExpr); isTok && f.CalleeID(tc) == "mellium.im/xmlstream.Token" && len(tc.Args) == 1 {
							if v := g.LocalVar(tc.Args[0]); v != nil {
								if _, isParam := paramIndex(f, v); isParam {
									okp = true
								}
							}
						}
					}
				}
			}
			c.r.Check(id, f, "InnerElement over "+rdr, "O: the element's start token is read from the reader (or was handed in by the caller and is replayed in front of it) before InnerElement is applied to it", cl.Pos(), okp, "InnerElement is applied to a reader that still stands in front of the element: it runs to the end of the enclosing element")
		}
	}
	return n
}

// paramIndex reports whether v is a parameter of f.
func paramIndex(f *eng.Fn, v interface{}) (int, bool) {
	sig := f.Sig()
	if sig == nil {
		return 0, false
	}
	for i := 0; i < sig.Params().Len(); i++ {
		if interface{}(sig.Params().At(i)) == v {
			return i, true
		}
	}
	return 0, false
}
