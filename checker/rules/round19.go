package rules

import (
	"go/ast"
	"go/token"
	"go/types"
	"strings"

	"verif/checker/eng"
)

// Rules written after seeding round 19.

// r19SelectionAsReceived (C03.20): the receiving side runs the mechanism the
// initiator NAMED: what DecodeElement put into the <auth/> payload is not
// filled in afterwards (a default for a missing mechanism attribute
// authenticates an exchange in which nothing was selected).
func r19SelectionAsReceived(c *cx, id string) {
	f := c.fn(id, "", "negotiateServer")
	if f == nil {
		return
	}
	n := 0
	var calls []*ast.CallExpr
	var assigns []*ast.AssignStmt
	ast.Inspect(f.Body, func(nd ast.Node) bool {
		switch x := nd.(type) {
		case *ast.CallExpr:
			if sel, ok := ast.Unparen(x.Fun).(*ast.SelectorExpr); ok && sel.Sel.Name == "DecodeElement" && len(x.Args) >= 1 {
				calls = append(calls, x)
			}
		case *ast.AssignStmt:
			assigns = append(assigns, x)
		}
		return true
	})
	for _, cl := range calls {
		arg := ast.Unparen(cl.Args[0])
		if u, ok := arg.(*ast.UnaryExpr); ok && u.Op == token.AND {
			arg = u.X
		}
		v := rootLocal(f, arg)
		if v == nil {
			continue
		}
		n++
		bad := ""
		for _, as := range assigns {
			for _, l := range as.Lhs {
				if _, ok := ast.Unparen(l).(*ast.SelectorExpr); ok && rootLocal(f, l) == v {
					bad = "field " + types.ExprString(l) + " of the decoded payload is assigned at " + c.p.Pos(as.Pos()) + ": the exchange runs on a value the peer did not send"
				}
			}
		}
		c.r.Check(id, f, "decoded payload "+v.Name()+" used as received", "K: no field of a payload decoded from the peer is assigned afterwards", cl.Pos(), bad == "", bad)
	}
	c.r.Floor(id, "payloads decoded in negotiateServer", n, 1)
}

// r19CancelledOnlyWhileWaiting (C10.25 = C05.29): sendResp reports the
// context's error only from a select arm on ctx.Done(): a closed output stream
// is reported as such by every transmit entry point, also under a context
// that is already cancelled.
func r19CancelledOnlyWhileWaiting(c *cx, id string) {
	f := c.fn(id, "", "(*Session).sendResp")
	if f == nil {
		return
	}
	g := f.Graph()
	n := 0
	for _, rs := range g.Returns {
		pt, ok := g.Where(rs)
		if !ok {
			continue
		}
		isCtx := false
		for _, r := range rs.Results {
			if strings.Contains(f.Norm(r, &pt), "context.Context.Err[") {
				isCtx = true
			}
		}
		if !isCtx {
			continue
		}
		n++
		c.domAny(id, f, rs, "context error returned", []string{"selectarm(recv context.Context.Done[*]())"})
	}
	c.r.Floor(id, "returns of the context's error in sendResp", n, 1)
}

// r19FirstConditionWins (C13.43): the decoder of stanza.Error takes the FIRST
// child in the stanza-error namespace as the condition: the store into
// Condition inside the loop over the children cannot be reached again from
// itself (an application payload in that namespace that follows the condition
// must not replace it).
func r19FirstConditionWins(c *cx, id string) {
	f := c.fn(id, "stanza", "(*Error).UnmarshalXML")
	if f == nil {
		return
	}
	g := f.Graph()
	n := 0
	for _, w := range f.FieldWrites("stanza.Error.Condition") {
		wp, ok := g.Where(w.Stmt)
		if !ok {
			continue
		}
		inLoop := false
		ast.Inspect(f.Body, func(nd ast.Node) bool {
			switch x := nd.(type) {
			case *ast.RangeStmt:
				if x.Body.Pos() <= w.Stmt.Pos() && w.Stmt.End() <= x.Body.End() {
					inLoop = true
				}
			case *ast.ForStmt:
				if x.Body.Pos() <= w.Stmt.Pos() && w.Stmt.End() <= x.Body.End() {
					inLoop = true
				}
			}
			return true
		})
		if !inLoop {
			continue
		}
		n++
		c.r.Check(id, f, "condition taken from the first matching child", "O: the store into Condition ends the search (it cannot be reached again from itself)", w.Stmt.Pos(), !g.Reachable(g.After(wp), wp, nil, nil), "the loop goes on after the condition was found: a later child in the same namespace replaces it")
	}
	c.r.Floor(id, "stores into Condition inside the child loop", n, 1)
}

// r19NothingMeansNothing (C14.17): when ServeMux.Handler reports ok == false
// the handler it returns is the one that does nothing.
func r19NothingMeansNothing(c *cx, id string) {
	f := c.fn(id, "mux", "(*ServeMux).Handler")
	if f == nil {
		return
	}
	g := f.Graph()
	n := 0
	for _, rs := range g.Returns {
		if len(rs.Results) != 2 {
			continue
		}
		pt, _ := g.Where(rs)
		if f.Norm(rs.Results[1], &pt) != "false" {
			continue
		}
		n++
		t := f.Info().TypeOf(rs.Results[0])
		okk := t != nil && strings.HasSuffix(t.String(), "mux.nopHandler")
		c.r.Check(id, f, "handler returned with ok == false", "K: the default for everything else is the handler that writes nothing", rs.Pos(), okk, "a handler other than nopHandler is returned for a name nothing was registered for: it can write to the stream")
	}
	c.r.Floor(id, "returns of ServeMux.Handler with ok == false", n, 1)
}

// r19StrictDataDecoding (C15.34): incoming in-band data is decoded with the
// padded standard alphabet, from the payload's bytes as they arrived: a
// lenient decoder accepts packets the sender cannot have produced, delivers
// their bytes and advances the sequence counter.
func r19StrictDataDecoding(c *cx, id string) {
	n := 0
	for _, f := range c.allFns() {
		if f.Body == nil || !strings.HasPrefix(f.Short, "ibb.") {
			continue
		}
		ast.Inspect(f.Body, func(nd ast.Node) bool {
			sel, ok := nd.(*ast.SelectorExpr)
			if !ok {
				return true
			}
			pk, ok := sel.X.(*ast.Ident)
			if !ok {
				return true
			}
			if pn, ok := f.Info().Uses[pk].(*types.PkgName); !ok || pn.Imported().Path() != "encoding/base64" {
				return true
			}
			if !strings.HasSuffix(sel.Sel.Name, "Encoding") {
				return true
			}
			n++
			c.r.Check(id, f, "base64 alphabet "+sel.Sel.Name, "K: in-band bytestreams use base64.StdEncoding (padded) on both sides", sel.Pos(), sel.Sel.Name == "StdEncoding", "data is coded with base64."+sel.Sel.Name+": packets that are not valid padded base64 are accepted (or produced)")
			return true
		})
	}
	c.r.Floor(id, "uses of a base64 encoding in ibb", n, 2)
	if f := c.fn(id, "ibb", "handlePayload"); f != nil {
		m := 0
		for _, cl := range f.AllCalls() {
			if f.CalleeID(cl) != "encoding/base64.Encoding.Decode" || len(cl.Args) != 2 {
				continue
			}
			m++
			_, isSel := ast.Unparen(cl.Args[1]).(*ast.SelectorExpr)
			v := rootLocal(f, cl.Args[1])
			isParam := false
			if v != nil && f.Decl != nil {
				for _, fl := range f.Decl.Type.Params.List {
					for _, nm := range fl.Names {
						if f.Info().Defs[nm] == types.Object(v) {
							isParam = true
						}
					}
				}
			}
			c.r.Check(id, f, "decoded bytes are the payload's", "K: what is decoded is the data field of the received payload, unmodified", cl.Pos(), isSel && isParam, "the decoder is given "+types.ExprString(cl.Args[1])+", not the payload's data as it arrived")
		}
		c.r.Floor(id, "base64 decodes in handlePayload", m, 1)
	}
}

// r19ExpectKeysAgree (C15.35): Listener.Expect and handleOpen find each other
// through Listener.expected: every key of that map is built from the full
// address (X.String() + ":" + sid), never from a bare one.
func r19ExpectKeysAgree(c *cx, id string) {
	n := 0
	for _, f := range c.allFns() {
		if f.Body == nil || !strings.HasPrefix(f.Short, "ibb.") {
			continue
		}
		ast.Inspect(f.Body, func(nd ast.Node) bool {
			var m, key ast.Expr
			switch x := nd.(type) {
			case *ast.IndexExpr:
				m, key = x.X, x.Index
			case *ast.CallExpr:
				if idn, ok := ast.Unparen(x.Fun).(*ast.Ident); ok && idn.Name == "delete" && len(x.Args) == 2 {
					m, key = x.Args[0], x.Args[1]
				}
			}
			if m == nil {
				return true
			}
			if k, _ := f.FieldClass(m); k != "ibb.Listener.expected" {
				return true
			}
			n++
			pt, _ := f.Graph().Where(nd)
			nf := f.Norm(key, &pt)
			okk := strings.Contains(nf, "jid.JID.String[") && !strings.Contains(nf, ".Bare[") && !strings.Contains(nf, ".Domain[")
			c.r.Check(id, f, "key of Listener.expected", "T: every access keys the table by the peer's full address and the stream id", nd.Pos(), okk, "key is "+nf+": Expect and the open handler do not find each other")
			return true
		})
	}
	c.r.Floor(id, "accesses of Listener.expected", n, 4)
}

// r19NoSilentAdvance (C17.18): a split function of the styling decoder that
// consumes input returns it as a token: (n, nil, nil) is returned with n == 0
// only ("need more data"). Input that is skipped is missing from the tokens.
func r19NoSilentAdvance(c *cx, id string) int {
	n := 0
	for _, f := range c.allFns() {
		if f.Body == nil || !strings.HasPrefix(f.Short, "styling.") {
			continue
		}
		if f.Obj == nil {
			continue
		}
		sig, ok := f.Obj.Type().(*types.Signature)
		if !ok || sig.Results().Len() != 3 || sig.Results().At(0).Type().String() != "int" || sig.Results().At(1).Type().String() != "[]byte" {
			continue
		}
		g := f.Graph()
		for _, rs := range g.Returns {
			if len(rs.Results) != 3 {
				continue
			}
			pt, _ := g.Where(rs)
			if f.Norm(rs.Results[1], &pt) != "nil" || f.Norm(rs.Results[2], &pt) != "nil" {
				continue
			}
			n++
			v, isC := f.ConstInt(rs.Results[0])
			c.r.Check(id, f, "advance without a token", "K: a return without token and without error advances by 0", rs.Pos(), isC && v == 0, "input is consumed ("+types.ExprString(rs.Results[0])+" bytes) without being returned as a token: the tokens no longer add up to the input")
		}
	}
	return n
}

// r19SetValuesAreWritten (C19.56): an encoder that writes a string field "if
// it is set" tests it against the empty string only. A second test against
// some other constant ("the default") leaves a value that IS set out of the
// output, and it decodes as unset.
func r19SetValuesAreWritten(c *cx, id string, in func(*eng.Fn) bool) int {
	n := 0
	for _, f := range c.allFns() {
		if f.Body == nil || !in(f) || f.Decl == nil || f.Decl.Recv == nil {
			continue
		}
		tagless := map[*ast.CaseClause]bool{}
		ast.Inspect(f.Body, func(nd ast.Node) bool {
			if sw, ok := nd.(*ast.SwitchStmt); ok && sw.Tag == nil {
				for _, st := range sw.Body.List {
					if cc, ok := st.(*ast.CaseClause); ok && len(cc.List) == 1 {
						tagless[cc] = true
					}
				}
			}
			return true
		})
		ast.Inspect(f.Body, func(nd ast.Node) bool {
			var guard ast.Expr
			switch x := nd.(type) {
			case *ast.IfStmt:
				guard = x.Cond
			case *ast.CaseClause:
				if tagless[x] {
					guard = x.List[0]
				}
			}
			if guard == nil {
				return true
			}
			ifs := nd
			var conj []ast.Expr
			var split func(e ast.Expr)
			split = func(e ast.Expr) {
				e = ast.Unparen(e)
				if be, ok := e.(*ast.BinaryExpr); ok && be.Op == token.LAND {
					split(be.X)
					split(be.Y)
					return
				}
				conj = append(conj, e)
			}
			split(resolveBool(f, guard))
			set := map[string]bool{}
			other := map[string]string{}
			for _, e := range conj {
				be, ok := e.(*ast.BinaryExpr)
				if !ok {
					continue
				}
				// the emptiness test in its len() spellings
				for _, pr := range [][2]ast.Expr{{be.X, be.Y}, {be.Y, be.X}} {
					cl, ok := ast.Unparen(pr[0]).(*ast.CallExpr)
					if !ok || len(cl.Args) != 1 {
						continue
					}
					if idn, ok := ast.Unparen(cl.Fun).(*ast.Ident); !ok || idn.Name != "len" {
						continue
					}
					if v, isC := f.ConstInt(pr[1]); !isC || v != 0 {
						continue
					}
					if be.Op == token.NEQ || be.Op == token.GTR || be.Op == token.LSS {
						if fld := f.Norm(cl.Args[0], nil); strings.HasPrefix(fld, "recv.") {
							set[fld] = true
						}
					}
				}
				if be.Op != token.NEQ {
					continue
				}
				for _, pr := range [][2]ast.Expr{{be.X, be.Y}, {be.Y, be.X}} {
					s, isC := f.ConstStr(pr[1])
					fld := f.Norm(pr[0], nil)
					if !isC || !strings.HasPrefix(fld, "recv.") {
						continue
					}
					if s == "" {
						set[fld] = true
					} else {
						other[fld] = s
					}
				}
			}
			for fld := range set {
				n++
				s, bad := other[fld]
				c.r.Check(id, f, "emission of "+fld+" when set", "K: a field that is written when it is not empty is written for EVERY non-empty value", ifs.Pos(), !bad, "the value \""+s+"\" is not written although it is set: it decodes as the empty value")
			}
			return true
		})
	}
	return n
}

// r19OptionalTail lists decoders whose last store may be skipped, confirmed by
// reading (one line of reason each).
var r19OptionalTail = map[string]string{
	"history.(*Result).UnmarshalXML.Set": "the <set/> child of <fin/> is optional and is the LAST thing the decoder looks at; the library decodes every <fin/> into a fresh Result (history.Fetch), so nothing stale can be in it",
}

// r19DecodersStoreOnEverySuccess (C19.57): a decoder that stores decoded
// fields into its receiver at the top level of its body does so before every
// successful return: an early "nothing more to copy" return leaves the
// receiver's previous content in the fields below it (the same variable used
// for two items carries the first item's data into the second).
func r19DecodersStoreOnEverySuccess(c *cx, id string, in func(*eng.Fn) bool) int {
	n := 0
	for _, f := range c.allFns() {
		if f.Body == nil || !in(f) || !strings.HasSuffix(f.Short, ").UnmarshalXML") || f.Decl == nil {
			continue
		}
		g := f.Graph()
		for _, st := range f.Decl.Body.List {
			as, ok := st.(*ast.AssignStmt)
			if !ok || len(as.Lhs) != 1 {
				continue
			}
			sel, ok := ast.Unparen(as.Lhs[0]).(*ast.SelectorExpr)
			if !ok || f.Norm(sel.X, nil) != "recv" {
				continue
			}
			sp, ok := g.Where(as)
			if !ok {
				continue
			}
			n++
			for _, rs := range g.Returns {
				if g.RetKindOf(rs) != eng.RetSuccess {
					continue
				}
				rp, ok := g.Where(rs)
				if !ok || g.Reachable(g.After(rp), sp, nil, nil) {
					continue
				}
				// any store into the same field counts (an alternative branch that
				// fills the receiver from its own decode target)
				isStore := func(q eng.Point, nd ast.Node) bool {
					a2, ok := nd.(*ast.AssignStmt)
					if !ok {
						return false
					}
					for _, l := range a2.Lhs {
						if s2, ok := ast.Unparen(l).(*ast.SelectorExpr); ok && s2.Sel.Name == sel.Sel.Name && f.Norm(s2.X, nil) == "recv" {
							return true
						}
					}
					return false
				}
				if why, ok := r19OptionalTail[f.Short+"."+sel.Sel.Name]; ok {
					c.r.Note("%s: %s.%s not required before the return at %s: %s", id, f.Short, sel.Sel.Name, c.p.Pos(rs.Pos()), why)
					continue
				}
				c.r.Check(id, f, "field "+sel.Sel.Name+" stored before every successful return", "P: every successful return of the decoder has passed its top-level stores into the receiver", rs.Pos(), g.MustPassBefore(g.Entry(), rp, isStore, nil), "a successful return ("+c.p.Pos(rs.Pos())+") is reached without the store into "+sel.Sel.Name+": the receiver keeps what an earlier decode left there")
			}
		}
	}
	return n
}

// r19PermissionsAskedEveryTime (C03.21): negotiateServer hands the caller's
// permission callback to the mechanism as it is: the parameter is never
// reassigned (a wrapper that remembers the first verdict answers a later
// <auth/> with the verdict for other credentials).
func r19PermissionsAskedEveryTime(c *cx, id string) {
	f := c.fn(id, "", "negotiateServer")
	if f == nil || f.Decl == nil {
		return
	}
	var perm types.Object
	for _, fl := range f.Decl.Type.Params.List {
		for _, nm := range fl.Names {
			if t := f.Info().TypeOf(fl.Type); t != nil && strings.Contains(t.String(), "sasl.Negotiator) bool") {
				perm = f.Info().Defs[nm]
			}
		}
	}
	if perm == nil {
		c.r.Unresolved(id, "permission callback parameter of negotiateServer")
		return
	}
	bad := ""
	ast.Inspect(f.Body, func(nd ast.Node) bool {
		as, ok := nd.(*ast.AssignStmt)
		if !ok {
			return true
		}
		for _, l := range as.Lhs {
			if idn, ok := ast.Unparen(l).(*ast.Ident); ok && (f.Info().Uses[idn] == perm || f.Info().Defs[idn] == perm) {
				bad = "the callback parameter is replaced at " + c.p.Pos(as.Pos()) + ": what the mechanism asks is no longer the caller's function"
			}
		}
		return true
	})
	c.r.Check(id, f, "permission callback passed on as given", "K: the permissions parameter of negotiateServer is never assigned", f.Decl.Pos(), bad == "", bad)
	uses := 0
	ast.Inspect(f.Body, func(nd ast.Node) bool {
		if idn, ok := nd.(*ast.Ident); ok && f.Info().Uses[idn] == perm {
			uses++
		}
		return true
	})
	c.r.Floor(id, "uses of the permission callback in negotiateServer", uses, 1)
}

// r19WrapPassesThePayloadOn (C05.30 = C13.44): the Wrap methods of the stanza
// types hand the caller's payload reader to xmlstream.Wrap as it is: all of
// its tokens become the content of the stanza (a reader that stops after the
// first element silently drops the rest of a multi-element payload).
func r19WrapPassesThePayloadOn(c *cx, id string) {
	n := 0
	for _, name := range []string{"IQ.Wrap", "Message.Wrap", "Presence.Wrap"} {
		f := c.fn(id, "stanza", name)
		if f == nil {
			continue
		}
		for _, cl := range f.Calls("mellium.im/xmlstream.Wrap") {
			if len(cl.Args) < 1 {
				continue
			}
			n++
			pt, _ := f.Graph().Where(cl)
			nf := f.Norm(cl.Args[0], &pt)
			c.r.Check(id, f, "payload handed to xmlstream.Wrap", "K: the content of the stanza is the caller's reader itself", cl.Pos(), nf == "p0", "the content is "+nf+", not the payload parameter as given")
		}
		for _, w := range f.Writes() {
			if idn, ok := ast.Unparen(w.LHS).(*ast.Ident); ok && f.Norm(idn, nil) == "p0" {
				c.r.Check(id, f, "payload parameter reassigned", "K: the payload parameter is not replaced", w.Stmt.Pos(), false, "the payload is replaced before it is wrapped")
			}
		}
	}
	c.r.Floor(id, "xmlstream.Wrap calls in the Wrap methods of the stanza types", n, 3)
}

// r19FromIndependentOfTo (C05.31 = C13.45): in the StartElement methods of the
// stanza types the from attribute is appended under "From is set" alone (and
// to under "To is set" alone): the attributes do not depend on one another.
func r19FromIndependentOfTo(c *cx, id string) {
	n := 0
	for _, name := range []string{"IQ.StartElement", "Message.StartElement", "Presence.StartElement"} {
		f := c.fn(id, "stanza", name)
		if f == nil {
			continue
		}
		for _, w := range f.Writes() {
			cl, ok := w.RHS.(*ast.CallExpr)
			if w.RHS == nil || !ok || len(cl.Args) < 2 {
				continue
			}
			if idn, ok := ast.Unparen(cl.Fun).(*ast.Ident); !ok || idn.Name != "append" {
				continue
			}
			lit, ok := ast.Unparen(cl.Args[1]).(*ast.CompositeLit)
			if !ok {
				continue
			}
			nameV := structLitField(lit, "Name")
			nl, ok := ast.Unparen(nameV).(*ast.CompositeLit)
			if nameV == nil || !ok {
				continue
			}
			local, _ := f.ConstStr(structLitField(nl, "Local"))
			var allowed []string
			switch local {
			case "from":
				allowed = []string{"!jid.JID.Equal[recv.From](*)", "!eq(*recv.From*)", "!*recv.From*"}
			case "to":
				allowed = []string{"!jid.JID.Equal[recv.To](*)", "!eq(*recv.To*)", "!*recv.To*"}
			default:
				continue
			}
			n++
			c.onlyFacts(id, f, w.Stmt, "attribute "+local+" appended", allowed)
		}
	}
	c.r.Floor(id, "to/from attributes in the StartElement methods", n, 6)
}

// r19OptionalFormsTested (C09.38): a *form.Data that was decoded from a reply
// is nil when the reply carried no form. Outside the form package a method
// other than Len (which tolerates nil) is called on such a pointer only where
// it is known to be non-nil. Receivers that are locals are followed to their
// definitions: a local defined from a decoded struct field is such a pointer,
// one defined by form.New / a composite literal is not.
func r19OptionalFormsTested(c *cx, id string) int {
	n := 0
	tolerant := nilTolerantFormMethods(c)
	for _, f := range c.allFns() {
		if f.Body == nil || strings.HasPrefix(f.Short, "form.") {
			continue
		}
		g := f.Graph()
		for _, cl := range f.AllCalls() {
			cid := f.CalleeID(cl)
			if !strings.HasPrefix(cid, "form.Data.") || cid == "form.Data.UnmarshalXML" || tolerant[strings.TrimPrefix(cid, "form.Data.")] {
				continue
			}
			sel, ok := ast.Unparen(cl.Fun).(*ast.SelectorExpr)
			if !ok {
				continue
			}
			if t := f.Info().TypeOf(sel.X); t == nil || t.String() != "*mellium.im/xmpp/form.Data" {
				continue
			}
			// where does the pointer come from?
			optional := false
			switch x := ast.Unparen(sel.X).(type) {
			case *ast.SelectorExpr:
				optional = rootLocal(f, x) != nil
			case *ast.Ident:
				v := rootLocal(f, x)
				if v == nil {
					continue
				}
				for _, w := range f.Writes() {
					if rootLocal(f, w.LHS) != v || w.RHS == nil {
						continue
					}
					if _, isSel := ast.Unparen(w.LHS).(*ast.SelectorExpr); isSel {
						continue
					}
					if rs, ok := ast.Unparen(w.RHS).(*ast.SelectorExpr); ok && rootLocal(f, rs) != nil {
						optional = true
					}
				}
			}
			if !optional {
				continue
			}
			n++
			pt, ok := g.Where(cl)
			if !ok {
				continue
			}
			nf := f.Norm(sel.X, &pt)
			raw := f.Norm(sel.X, nil)
			known := false
			for _, a := range g.FactsAt(pt) {
				if a == "!eq("+nf+",nil)" || a == "!eq("+raw+",nil)" {
					known = true
				}
			}
			c.r.Check(id, f, "method "+strings.TrimPrefix(cid, "form.Data.")+" of an optional form "+raw, "G: a decoded *form.Data is used through a nil-intolerant method only where it is known to be non-nil", cl.Pos(), known, "the reply may carry no form: "+types.ExprString(sel.X)+" is nil and the call panics")
		}
	}
	return n
}

// nilTolerantFormMethods: the methods of *form.Data that can be called on a
// nil pointer: they test the receiver against nil before anything else, or
// touch it only through methods that are tolerant themselves (fixpoint).
func nilTolerantFormMethods(c *cx) map[string]bool {
	type info struct {
		guard, field bool
		calls        []string
	}
	ms := map[string]*info{}
	for _, f := range c.allFns() {
		if f.Decl == nil || f.Decl.Recv == nil || !strings.HasPrefix(f.Short, "form.(*Data).") || f.Body == nil {
			continue
		}
		name := strings.TrimPrefix(f.Short, "form.(*Data).")
		in := &info{}
		ms[name] = in
		for _, st := range stripNoops(f.Decl.Body.List) {
			if as, ok := st.(*ast.AssignStmt); ok && len(as.Lhs) == 1 {
				// a named condition in front of the test
				if t := f.Info().TypeOf(as.Lhs[0]); t != nil && t.String() == "bool" {
					continue
				}
			}
			var cond ast.Expr
			var body []ast.Stmt
			switch x := st.(type) {
			case *ast.IfStmt:
				cond, body = x.Cond, x.Body.List
			case *ast.SwitchStmt:
				if x.Tag == nil && len(x.Body.List) > 0 {
					if cc, ok := x.Body.List[0].(*ast.CaseClause); ok && len(cc.List) == 1 {
						cond, body = cc.List[0], cc.Body
					}
				}
			}
			if cond != nil {
				if be, ok := ast.Unparen(resolveBool(f, cond)).(*ast.BinaryExpr); ok && be.Op == token.EQL && (f.Norm(be.X, nil) == "recv" && f.Norm(be.Y, nil) == "nil" || f.Norm(be.Y, nil) == "recv" && f.Norm(be.X, nil) == "nil") && listReturns(body) {
					in.guard = true
				}
			}
			break
		}
		ast.Inspect(f.Body, func(nd ast.Node) bool {
			sel, ok := nd.(*ast.SelectorExpr)
			if !ok || f.Norm(sel.X, nil) != "recv" {
				return true
			}
			if s := f.Info().Selections[sel]; s != nil && s.Kind() == types.FieldVal {
				in.field = true
			} else {
				in.calls = append(in.calls, sel.Sel.Name)
			}
			return true
		})
	}
	tol := map[string]bool{}
	for k, in := range ms {
		tol[k] = in.guard || !in.field
	}
	for changed := true; changed; {
		changed = false
		for k, in := range ms {
			if !tol[k] || in.guard {
				continue
			}
			for _, cl := range in.calls {
				if t, known := tol[cl]; known && !t {
					tol[k] = false
					changed = true
				}
			}
		}
	}
	return tol
}

// r19ExpiredDeadlineClearedByItsSetter (C07.27 = C05.32 = C10.26): the
// goroutines of setDeadline / setWriteDeadline that put an expired deadline on
// the connection also lift it, on every path to their end: when the lifting
// is left to somebody else (the cancel function the caller runs), the set can
// come after the lift and nothing lifts it again - every later write on the
// connection (the reply to the next IQ, the closing tag) times out.
func r19ExpiredDeadlineClearedByItsSetter(c *cx, id string) {
	n := 0
	for _, name := range []string{"setDeadline", "setWriteDeadline"} {
		pf := c.fn(id, "", name)
		if pf == nil {
			continue
		}
		for _, f := range pf.Lits {
			g := f.Graph()
			isZero := func(e ast.Expr) bool {
				cl, ok := ast.Unparen(e).(*ast.CompositeLit)
				return ok && len(cl.Elts) == 0
			}
			isLift := func(q eng.Point, nd ast.Node) bool {
				var cl *ast.CallExpr
				switch x := nd.(type) {
				case *ast.ExprStmt:
					cl, _ = x.X.(*ast.CallExpr)
				case *ast.CallExpr:
					cl = x
				}
				return cl != nil && strings.Contains(f.CalleeID(cl), "Deadline") && len(cl.Args) == 1 && isZero(cl.Args[0])
			}
			for _, cl := range f.AllCalls() {
				if !strings.Contains(f.CalleeID(cl), "Deadline") || len(cl.Args) != 1 || isZero(cl.Args[0]) {
					continue
				}
				n++
				cp, ok := g.Where(cl)
				if !ok {
					c.r.Unresolved(id, f.Short+": deadline call not placed")
					continue
				}
				okk := len(g.Returns) > 0
				for _, rs := range g.Returns {
					rp, ok := g.Where(rs)
					if !ok || !g.Reachable(g.After(cp), rp, nil, nil) {
						continue
					}
					if !g.MustPassBefore(g.After(cp), rp, isLift, nil) {
						okk = false
					}
				}
				c.r.Check(id, f, "expired deadline lifted by the goroutine that set it", "P: after "+types.ExprString(cl)+" every path to the end of the goroutine passes the call with the zero time", cl.Pos(), okk, "the goroutine can end with the expired deadline in force: a lift that runs elsewhere may come BEFORE this set, and every later write on the connection fails")
			}
		}
	}
	c.r.Floor(id, "expired deadlines set by the deadline helpers", n, 2)
}

// r19LeaveAlwaysAsks (C18.35): Channel.Leave is LeavePresence with an empty
// presence, unconditionally, and returns its result.
func r19LeaveAlwaysAsks(c *cx, id string) {
	f := c.fn(id, "muc", "(*Channel).Leave")
	if f == nil {
		return
	}
	calls := f.Calls("muc.Channel.LeavePresence")
	c.r.Floor(id, "leaves in Channel.Leave", len(calls), 1)
	for _, cl := range calls {
		c.onlyFacts(id, f, cl, "leave request", []string{})
	}
	g := f.Graph()
	for _, rs := range g.Returns {
		pt, _ := g.Where(rs)
		okk := len(rs.Results) == 1 && strings.Contains(f.Norm(rs.Results[0], &pt), "LeavePresence")
		c.r.Check(id, f, "result is the leave's result", "K: Channel.Leave returns what LeavePresence returns", rs.Pos(), okk, "a return that is not the result of the leave request: success without telling the room")
	}
}
