package rules

import (
	"go/ast"
	"go/constant"
	"go/token"
	"go/types"
	"strconv"
	"strings"

	"verif/checker/eng"
)

func init() {
	Registry["C12"] = Rule{
		Meta: eng.Meta{
			Explanation: "Structural necessary conditions of 'negotiation carries addresses and identifiers faithfully and checks them', decided on every path: every non-constant string that internal/stream.Send writes into the stream header is escaped with xml.EscapeText, has a type whose text form needs no escaping (stream.Version), or is proven harmless by provenance at all call sites (constants / attr.RandomID), and the content namespace is a constant set before every Send (C12.1, taint: source -> sanitiser -> sink); Expect's success return is dominated by the framing-specific name test, a nil FromStartElement error, version 1.0, a supported content namespace (TCP) and a stream id when we initiated, and a stream error sent instead of a header is returned (C12.2); FromStartElement has an arm per header attribute storing into the like-named field and reports address/version parse failures (C12.3); after a restart both roles compare the new header's addresses with snapshots taken BEFORE the header was read and return an error on mismatch (C12.4); resource binding: request literal, guard/use agreement of the bind payload encoder, UpdateAddr only for a result with our id (C12.5), the receiver's answer carries the request id, type result, swapped addresses, and a resource from the callback or from attr.RandomID() evaluated per request (C12.6).",
			NotDecided:  "that a peer's parser recovers the same values (round trip), language tag validity, JID escaping inside xml.EscapeText's output (trusted).",
			Trusted:     trustedCommon,
		},
		Run: runC12,
	}
}

func runC12(p *eng.Prog, r *eng.Report, tier string) {
	c := &cx{p, r, tier}
	importRules(c, "C11", []string{"C11.4"}, "C12.24")
	importRules(c, "C11", []string{"C11.5"}, "C12.23")
	r17ConfigRefreshedIntoTheSharedVariable(c, "C12.21")
	r17BindPayloadNamespaced(c, "C12.22")
	streamInfoResetOnlyOnRestart(c, "C12.18")
	c12UpdateAddrStores(c, "C12.19")
	c12FreshRandomness(c, "C12.20")
	jidEqualRule(c, "C12.8")
	c12HeaderBufferPerCall(c, "C12.10")
	c.r.Floor("C12.9", "fmt.Errorf and errors.New calls examined in xmpp, stream, internal/stream, internal/decl", errorsKeepIdentity(c, "C12.9", []string{"", "stream", "internal/stream", "internal/decl"}), 30)
	// C12.6 the id the bind answer repeats is the request's own id attribute
	ownAttrLookups(c, "C12.6", func(f *eng.Fn) bool { return strings.HasPrefix(f.Short, "xmpp.bind") })
	// C12.3 version numbers (and every other number read from a header) are
	// refused, not truncated, when they do not fit
	nTr := parsedIntTruncation(c, "C12.3", func(f *eng.Fn) bool {
		return strings.HasPrefix(f.Short, "stream.") || strings.HasPrefix(f.Short, "internal/stream.")
	})
	c.r.Floor("C12.3", "narrowing conversions of parsed numbers in the stream packages", nTr, 2)
	c12Send(c)
	c11ElementIsCharData(c, "C12.12")
	jidCore(c, "C12.14")
	c12HeaderAddressesWhole(c, "C12.13")
	c12OriginHandedOnWhole(c, "C12.15")
	c12HeaderKeepsAbsent(c, "C12.16")
	c12BindReplyIDFirst(c, "C12.17")
	// C12.11 a stream error with an application condition (or any unknown
	// child) is still decoded as the stream error: the hand-written token loop
	// of stream.Error consumes every child it meets
	c.r.Floor("C12.11", "child start-element edges in the token loops of package stream", decoderLoopConsumes(c, "C12.11", func(f *eng.Fn) bool { return strings.HasPrefix(f.Short, "stream.") }), 1)
	// a stream error sent in place of a header is what the negotiation returns:
	// the stream-level filter (C08.2) returns it as the error in every mode
	c08ReaderAs(c, "C12.2")
	c12Expect(c)
	c12FromStart(c)
	c12Restart(c)
	c12Bind(c)
	// C12.2: "a stream error sent instead of a header is returned" (not a panic)
	tokenDecoderUnmarshaler(c, "C12.2", func(f *eng.Fn) bool {
		return strings.HasPrefix(f.Short, "internal/stream.") || f.Short == "xmpp.decodeStreamErr"
	})
}

func c12Send(c *cx) {
	id := "C12.1"
	send := c.fn(id, "internal/stream", "Send")
	if send == nil {
		return
	}
	// Send and every helper of its package that writes to a buffered writer
	// (a helper with a "nothing to escape" fast path writes raw text too)
	fns := []*eng.Fn{send}
	for _, hf := range c.allFns() {
		if hf == send || hf.Pkg != send.Pkg || hf.Body == nil {
			continue
		}
		for _, cl := range hf.AllCalls() {
			cid := hf.CalleeID(cl)
			if cid == "bufio.Writer.Write" || cid == "bufio.Writer.WriteString" || (strings.HasPrefix(cid, "fmt.Fprint") && len(cl.Args) > 0 && strings.Contains(eng.TypeStr(hf.Info().TypeOf(cl.Args[0])), "bufio.Writer")) {
				fns = append(fns, hf)
				break
			}
		}
	}
	nOps := 0
	for _, f := range fns {
		nOps += c12SendIn(c, id, f)
	}
	c.r.Floor(id, "non-constant header operands", nOps, 4)
	c12SendNS(c, id)
}

func c12SendIn(c *cx, id string, f *eng.Fn) int {
	g := f.Graph()
	sig := f.Sig()
	// string parameters and how they reach the writer
	escaped := map[*types.Var]bool{}
	for _, cl := range f.Calls("encoding/xml.EscapeText") {
		if len(cl.Args) == 2 {
			if v := rootLocal(f, unconv(cl.Args[1])); v != nil {
				escaped[v] = true
			}
		}
	}
	nOps := 0
	for _, cl := range f.AllCalls() {
		cid := f.CalleeID(cl)
		if !strings.HasPrefix(cid, "fmt.Fprint") && cid != "bufio.Writer.Write" && cid != "bufio.Writer.WriteString" {
			continue
		}
		args := cl.Args
		if strings.HasPrefix(cid, "fmt.Fprint") {
			args = args[1:]
		}
		for _, a := range args {
			if f.ConstVal(a) != nil {
				continue
			}
			nOps++
			pt, _ := g.Where(cl)
			t := eng.TypeStr(f.Info().TypeOf(a))
			what := f.Norm(a, &pt)
			switch {
			case t == "stream.Version":
				c.r.Check(id, f, "header operand "+what, "taint: operand type stream.Version prints digits and a dot only", cl.Pos(), true, "")
			case strings.HasSuffix(what, ".XMLNS"):
				c.r.Check(id, f, "header operand "+what, "taint: the content namespace is a constant set by the negotiator before every Send (checked at the call sites)", cl.Pos(), true, "")
			default:
				a2 := unconv(a)
				if bl, ok := ast.Unparen(a2).(*ast.CompositeLit); ok && len(bl.Elts) == 0 {
					continue
				}
				if cv := f.ConstVal(a2); cv != nil {
					nOps--
					continue
				}
				v := rootLocal(f, a2)
				okv := false
				why := "operand " + what + " is written into the header without escaping"
				if v != nil {
					{
						// provenance: all call sites pass a constant or RandomID()/RandomLen()
						idx := -1
						for i := 0; i < sig.Params().Len(); i++ {
							if sig.Params().At(i) == v {
								idx = i
							}
						}
						if idx >= 0 {
							okv = true
							ncs := 0
							for _, cf := range c.allFns() {
								for _, cc := range cf.Calls(f.Short) {
									ncs++
									cp, _ := cf.Graph().Where(cc)
									an := cf.Norm(cc.Args[idx], &cp)
									if cf.ConstVal(cc.Args[idx]) == nil && an != "internal/attr.RandomID()" && !strings.HasPrefix(an, "internal/attr.RandomLen(") {
										okv = false
										why = "parameter " + v.Name() + " is formatted raw and call site " + c.p.Pos(cc.Pos()) + " passes " + an + " (may contain ' < & )"
									}
								}
							}
							if ncs == 0 {
								okv = false
							}
						}
					}
				}
				c.r.Check(id, f, "header operand "+what, "taint: a non-constant string reaches the header only through xml.EscapeText, or is a constant / attr.RandomID() at every call site", cl.Pos(), okv, why)
			}
		}
	}
	return nOps
}

// c12SendNS: the content namespace is a constant before every Send in the negotiator.
func c12SendNS(c *cx, id string) {
	neg := c.p.Func("", "negotiator")
	if neg != nil && len(neg.Lits) > 0 {
		nf := neg.Lits[0]
		ng := nf.Graph()
		for _, sc := range nf.Calls("internal/stream.Send") {
			sp, _ := ng.Where(sc)
			setNS := func(q eng.Point, nd ast.Node) bool {
				as, ok := nd.(*ast.AssignStmt)
				if !ok || len(as.Lhs) != 1 {
					return false
				}
				if k, _ := nf.FieldClass(as.Lhs[0]); k != "stream.Info.XMLNS" {
					return false
				}
				return nf.ConstVal(as.Rhs[0]) != nil
			}
			c.r.Check(id, nf, "content namespace before Send", "O: out.XMLNS is set to a constant on every path to Send", sc.Pos(), ng.MustPassBefore(ng.Entry(), sp, setNS, nil), "Send reachable without out.XMLNS = <constant>")
			okArg := len(sc.Args) > 1 && nf.Norm(sc.Args[1], nil) == "p2"
			c.r.Check(id, nf, "stream info passed to Send", "P: Send formats the output stream's Info", sc.Pos(), okArg, "second argument is not the out Info")
		}
	}
	// component: to='%s' with addr (a JID)
	cn := c.p.Func("component", "Negotiator")
	if cn != nil && len(cn.Lits) > 0 {
		cf := cn.Lits[0]
		for _, cl := range cf.Calls("fmt.Fprintf") {
			for _, a := range cl.Args[2:] {
				if cf.ConstVal(a) != nil {
					continue
				}
				t := eng.TypeStr(cf.Info().TypeOf(a))
				// the component address is a domain-only JID (NewSession calls addr.Domain()); hex digest via %x
				okc := t == "[]byte" || (t == "jid.JID" && cf.Norm(a, nil) == "outer.p0")
				c.r.Check(id, cf, "component header operand "+cf.Norm(a, nil), "taint: component header operands are the configured component domain or a hex digest", cl.Pos(), okc, "operand of type "+t)
			}
		}
	}
}

// unconv strips conversions such as []byte(x) and string(x).
func unconv(e ast.Expr) ast.Expr {
	for {
		c, ok := ast.Unparen(e).(*ast.CallExpr)
		if !ok || len(c.Args) != 1 {
			return e
		}
		switch ast.Unparen(c.Fun).(type) {
		case *ast.ArrayType:
			e = c.Args[0]
			continue
		case *ast.Ident:
			if id := ast.Unparen(c.Fun).(*ast.Ident); id.Name == "string" {
				e = c.Args[0]
				continue
			}
		}
		return e
	}
}

func c12Expect(c *cx) { c12ExpectAs(c, "C12.2") }

func c12ExpectAs(c *cx, id string) {
	f := c.fn(id, "internal/stream", "Expect")
	if f == nil {
		return
	}
	g := f.Graph()
	n := 0
	for _, rs := range g.Returns {
		if g.RetKindOf(rs) != eng.RetSuccess {
			continue
		}
		n++
		tcp, ws := "!p4", "p4"
		c.dom(id, f, rs, "accepted header [start element]", []string{"istype(*;encoding/xml.StartElement)"})
		c.dom(id, f, rs, "accepted header [FromStartElement ok]", []string{"eq(stream.Info.FromStartElement[p1](*),nil)"})
		c.dom(id, f, rs, "accepted header [version 1.0]", []string{"eq(p1.Version,var:stream.DefaultVersion)"})
		c.dom(id, f, rs, "accepted header [stream id when initiating]", []string{"or(!eq(p1.ID,\"\") | p3)"})
		c.domAny(id, f, rs, "accepted header [not a stream error]", []string{"or(!eq(*.Name.Local,\"error\") | !eq(*.Name.Space,stream.NS))"})
		c.dom(id, f, rs, "accepted header [TCP: stream:stream]", []string{"or(and(eq(*.Name.Local,\"stream\") & eq(*.Name.Space,stream.NS)) | p4)"}, tcp)
		c.dom(id, f, rs, "accepted header [TCP: content namespace]", []string{"or(eq(p1.XMLNS,stanza.NSClient) | eq(p1.XMLNS,stanza.NSServer) | p4)"}, tcp)
		c.dom(id, f, rs, "accepted header [WebSocket: open]", []string{"or(!p4 | and(eq(*.Name.Local,\"open\") & eq(*.Name.Space,internal/stream.wsNamespace)))"}, ws)
	}
	c.r.Floor(id, "success returns of Expect", n, 1)
	c.r.Ceil(id, "success returns of Expect", n, 1)
	// stream error in place of a header
	ne := 0
	for _, ce := range g.EdgesMatching("eq(*.Name.Local,\"error\")") {
		for _, a := range ce.Atoms {
			if strings.HasPrefix(a.S, "!") {
				continue
			}
		}
		for _, rs := range returnsFrom(f, g.EdgeTarget(ce.E), nil) {
			if len(rs.Results) == 1 && eng.TypeStr(f.Info().TypeOf(rs.Results[0])) == "stream.Error" {
				ne++
			}
		}
	}
	c.r.Check(id, f, "stream error instead of a header", "K: a stream error element is decoded and returned as the error", f.Pos(), ne >= 1, "no return of the decoded stream.Error on the error-element edge")
	errDiscipline(c, id, []*eng.Fn{f}, nil, false)
}

func c12FromStart(c *cx) {
	id := "C12.3"
	f := c.fn(id, "stream", "(*Info).FromStartElement")
	if f == nil {
		return
	}
	g := f.Graph()
	want := map[string]string{"xmlns": "XMLNS", "to": "To", "from": "From", "id": "ID", "version": "Version", "lang": "Lang"}
	seen := map[string]bool{}
	// the arms of the switch over the attribute name, with the names as
	// constant VALUES (named constants resolved)
	f.WalkBody(func(nd ast.Node) bool {
		cc, ok := nd.(*ast.CaseClause)
		if !ok {
			return true
		}
		for _, e := range cc.List {
			lit, ok := ast.Unparen(e).(*ast.CompositeLit)
			if !ok || eng.TypeStr(f.Info().TypeOf(lit)) != "encoding/xml.Name" {
				continue
			}
			space, local := "", ""
			if sv := structLitField(lit, "Space"); sv != nil {
				cv := f.ConstVal(sv)
				if cv == nil {
					continue
				}
				space = constant.StringVal(cv)
			}
			if lv := structLitField(lit, "Local"); lv != nil {
				cv := f.ConstVal(lv)
				if cv == nil {
					continue
				}
				local = constant.StringVal(cv)
			}
			fld, isAttr := want[local]
			if !isAttr {
				continue
			}
			// the name as encoding/xml presents it: unprefixed attributes have
			// an empty Space, xml:lang has the XML namespace URL (the decoder
			// translates the reserved prefix; "xml" never arrives)
			wantSpace := ""
			if local == "lang" {
				wantSpace = "http://www.w3.org/XML/1998/namespace"
			}
			if space != wantSpace {
				continue
			}
			okf := false
			for _, st := range cc.Body {
				ast.Inspect(st, func(x ast.Node) bool {
					if sel, ok := x.(*ast.SelectorExpr); ok && sel.Sel.Name == fld {
						if k, _ := f.FieldClass(sel); k == "stream.Info."+fld {
							okf = true
						}
					}
					return true
				})
			}
			if !seen[local] {
				seen[local] = true
				c.r.Check(id, f, "attribute "+local, "T: the header attribute "+local+" is stored into Info."+fld, cc.Pos(), okf, "arm for "+local+" does not touch Info."+fld)
			}
		}
		return true
	})
	for attr := range want {
		if !seen[attr] {
			c.r.Check(id, f, "attribute "+attr, "T: an arm exists for the header attribute "+attr+" under the name encoding/xml gives it", f.Pos(), false, "no arm matches attribute "+attr+" as decoded (xml:lang arrives with Space http://www.w3.org/XML/1998/namespace, not \"xml\")")
		}
	}
	// parse failures of to/from/version are reported
	nerr := 0
	for _, cl := range f.AllCalls() {
		cid := f.CalleeID(cl)
		if cid == "jid.JID.UnmarshalXMLAttr" || cid == "stream.Version.UnmarshalXMLAttr" {
			pt, _ := g.Where(cl)
			cn := f.Norm(cl, &pt)
			for _, ce := range g.EdgesMatching("!eq(" + cn + ",nil)") {
				for _, rs := range returnsFrom(f, g.EdgeTarget(ce.E), nil) {
					if g.RetKindOf(rs) == eng.RetError {
						nerr++
					}
					break
				}
			}
		}
	}
	c.r.Check(id, f, "parse failures reported", "G: malformed to/from/version attributes yield an error", f.Pos(), nerr >= 3, "only "+itoa(nerr)+" of 3 parse failures return an error")
	c.r.Check(id, f, "element name recorded", "K: Info.Name is the header element's name", f.Pos(), len(f.FieldWrites("stream.Info.Name")) >= 1, "Name not stored")
}

func c12Restart(c *cx) {
	id := "C12.4"
	neg := c.fn(id, "", "negotiator")
	if neg == nil {
		return
	}
	f := c.lit(id, neg, 1)
	if f == nil {
		return
	}
	g := f.Graph()
	for _, role := range []string{recvRole, initRole} {
		cut := g.CutFor(role)
		for _, ex := range f.Calls("internal/stream.Expect") {
			ep, _ := g.Where(ex)
			if !g.Reachable(g.Entry(), ep, cut, nil) {
				continue
			}
			// snapshots of LocalAddr/RemoteAddr precede Expect
			for _, m := range []string{"xmpp.Session.LocalAddr", "xmpp.Session.RemoteAddr"} {
				isSnap := func(q eng.Point, nd ast.Node) bool {
					as, ok := nd.(*ast.AssignStmt)
					if !ok || len(as.Rhs) != 1 {
						return false
					}
					cl, ok := ast.Unparen(as.Rhs[0]).(*ast.CallExpr)
					return ok && f.CalleeID(cl) == m
				}
				c.r.Check(id, f, "snapshot of "+m+" before Expect ["+role+"]", "O: the previously established address is read before the new header is parsed into the session", ex.Pos(), g.MustPassBefore(g.Entry(), ep, isSnap, cut), "Expect is reachable before "+m+"() was saved: the comparison would be made against the new header itself")
			}
			// after Expect: comparisons with error returns
			var pats [][]string
			if role == recvRole {
				pats = [][]string{
					{"jid.JID.Equal[xmpp.Session.RemoteAddr[p3]()](p3.in.Info.From)", "jid.JID.Equal[xmpp.Session.RemoteAddr[p3]()](jid.JID{})"},
					{"jid.JID.Equal[xmpp.Session.LocalAddr[p3]()](p3.in.Info.To)", "jid.JID.Equal[xmpp.Session.LocalAddr[p3]()](jid.JID{})"},
				}
				// the licence "origin not yet known" is for client-to-server streams only
				for _, ce := range g.EdgesMatching("jid.JID.Equal[xmpp.Session.RemoteAddr[p3]()](jid.JID{})") {
					has := false
					for _, a := range ce.Atoms {
						if a.S == "!all(p3.state,xmpp.S2S)" {
							has = true
						}
					}
					c.r.Check(id, f, "licence for an unset origin", "G: an origin that was not set before is accepted from the new header only on client-to-server streams", ex.Pos(), has, "licence edge lacks the S2S test")
				}
			} else {
				pats = [][]string{
					{"jid.JID.Equal[xmpp.Session.RemoteAddr[p3]()](p3.in.Info.From)"},
					{"jid.JID.Equal[xmpp.Session.LocalAddr[p3]()](p3.in.Info.To)", "jid.JID.Equal[p3.in.Info.To](jid.JID{})", "or(jid.JID.Equal[p3.in.Info.To](jid.JID{}) | jid.JID.Equal[xmpp.Session.LocalAddr[p3]()](p3.in.Info.To))"},
				}
			}
			for _, nfc := range f.Calls("xmpp.negotiateFeatures") {
				np, _ := g.Where(nfc)
				for i, alt := range pats {
					okd := g.DominatedFrom(g.After(ep), np, alt)
					c.r.Check(id, f, "restart address check "+itoa(i+1)+" ["+role+"]", "G: after the header was read, feature negotiation is reached only if the header's address equals the previously established one (or the licence for an unset address holds)", ex.Pos(), okd, "negotiateFeatures reachable after Expect without the address comparison")
				}
			}
		}
	}
	// negotiateSession preserves To/From and zeroes the rest on restart
	ns := c.fn(id, "", "negotiateSession")
	if ns != nil {
		n := 0
		for _, w := range ns.Writes() {
			k, _ := ns.FieldClass(w.LHS)
			if k != "xmpp.Session.in.Info" && k != "xmpp.Session.out.Info" {
				continue
			}
			cl, ok := ast.Unparen(w.RHS).(*ast.CompositeLit)
			if !ok {
				continue
			}
			n++
			side := strings.Split(k, ".")[2]
			to, from := structLitField(cl, "To"), structLitField(cl, "From")
			okp := to != nil && from != nil && len(cl.Elts) == 2 &&
				eng.Glob("*."+side+".Info.To", ns.Norm(to, nil)) && eng.Glob("*."+side+".Info.From", ns.Norm(from, nil))
			c.r.Check(id, ns, "stream info reset ("+side+")", "K: on restart the stream info keeps To/From (for the comparison) and nothing else", w.Stmt.Pos(), okp, "reset literal is "+ns.Norm(w.RHS, nil))
		}
		c.r.Floor(id, "stream info resets", n, 2)
	}
}

func c12Bind(c *cx) {
	// the Negotiate closure of bind
	b := c.fn("C12.5", "", "bind")
	if b == nil {
		return
	}
	var f *eng.Fn
	for _, l := range sfLiterals(c) {
		if l.fn == b {
			if lit, ok := structLitField(l.cl, "Negotiate").(*ast.FuncLit); ok {
				f = c.p.FnOfLit(lit)
			}
		}
	}
	if f == nil {
		c.r.Unresolved("C12.5", "Negotiate closure of bind")
		return
	}
	g := f.Graph()
	// ---- initiator ------------------------------------------------------------
	nreq := 0
	for _, cl := range f.WalkLits("xmpp.bindPayload") {
		pt, _ := g.Where(cl)
		if ok, _ := g.Dominated(pt, "all(*,xmpp.Received)"); !ok {
			if r := structLitField(cl, "Resource"); r != nil {
				nreq++
				c.r.Check("C12.5", f, "requested resource", "P: the initiator asks for exactly the resourcepart of its own address", cl.Pos(), f.Norm(r, &pt) == "jid.JID.Resourcepart[xmpp.Session.LocalAddr[p1]()]()", "Resource is "+f.Norm(r, &pt))
			}
		}
	}
	c.r.Floor("C12.5", "bind request literal", nreq, 1)
	// the reply (and the request, on the receiving side) is decoded into a
	// fresh value: encoding/xml leaves fields of the target untouched when the
	// element lacks them, so a reused target lets a reply without an id or
	// type inherit the request's
	freshDecodeTargets(c, "C12.5", f, 2)
	// the initiator reports success only for a result reply: an error reply
	// (with or without an <error/> child) or any other type never ends in Ready
	nsucc := 0
	for _, rs := range g.Returns {
		if g.RetKindOf(rs) == eng.RetError {
			continue
		}
		pt, _ := g.Where(rs)
		if ok, _ := g.Dominated(pt, "all(*,xmpp.Received)"); ok {
			continue // receiver side
		}
		nsucc++
		c.dom("C12.5", f, rs, "initiator success return [result reply]", []string{"eq(*.Type,stanza.ResultIQ)"})
		// ... and has told the session the address the server assigned: on
		// every path (the server may bind the requested resource under another
		// bare address)
		isUpd := func(q eng.Point, nd ast.Node) bool { return f.ContainsCall(nd, "xmpp.Session.UpdateAddr") != nil }
		c.r.Check("C12.5", f, "initiator success return [address reported]", "O: every path to the initiator's success return passes Session.UpdateAddr", rs.Pos(), g.MustPassBefore(g.Entry(), pt, isUpd, nil), "a success return is reachable without UpdateAddr: LocalAddr keeps the address the session started with")
	}
	c.r.Floor("C12.5", "initiator success returns of bind", nsucc, 1)
	// the error verdict is written where it is read: bindIQ decodes Err from an
	// <error/> child of the IQ, so the encoder emits it as a child of the IQ
	// (not nested in the <bind/> payload, where neither this library's
	// initiator nor any other client looks for it)
	if tr := c.fn("C12.6", "", "(*bindIQ).TokenReader"); tr != nil {
		tg := tr.Graph()
		nErr := 0
		for _, rs := range tg.Returns {
			rp, _ := tg.Where(rs)
			if okd, _ := tg.Dominated(rp, "!eq(recv.Err,nil)"); !okd || len(rs.Results) != 1 {
				continue
			}
			nErr++
			got := tr.Norm(rs.Results[0], &rp)
			c.r.Check("C12.6", tr, "error verdict encoded as a child of the iq", "P: with Err set the reply is IQ.Wrap(Err.TokenReader()) (the decoder's tag for Err is a direct child of the iq)", rs.Pos(), eng.Glob("stanza.IQ.Wrap[recv*](stanza.Error.TokenReader[recv.Err]())", got), "the reply is "+got)
		}
		c.r.Floor("C12.6", "error-verdict returns of bindIQ.TokenReader", nErr, 1)
	}
	// receiver: a stanza error from the application's callback is answered as
	// an ERROR reply and the step does not report success
	nrs := 0
	for _, rs := range g.Returns {
		if g.RetKindOf(rs) == eng.RetError {
			continue
		}
		pt, _ := g.Where(rs)
		if ok, _ := g.Dominated(pt, "all(*,xmpp.Received)"); !ok {
			continue
		}
		nrs++
		c.domAny("C12.6", f, rs, "receiver success return [callback returned no stanza error]", []string{"!commaok(*.(stanza.Error))"})
	}
	c.r.Floor("C12.6", "receiver success returns of bind", nrs, 1)
	for _, w := range f.Writes() {
		if sel, ok := ast.Unparen(w.LHS).(*ast.SelectorExpr); ok && sel.Sel.Name == "Err" {
			if k, _ := f.FieldClass(sel); k != "xmpp.bindIQ.Err" {
				continue
			}
			wp, _ := g.Where(w.Stmt)
			setsErrType := func(q eng.Point, nd ast.Node) bool {
				for _, w2 := range f.Writes() {
					if w2.Stmt == nd && w2.RHS != nil && f.Norm(w2.RHS, nil) == "stanza.ErrorIQ" {
						if s2, ok := ast.Unparen(w2.LHS).(*ast.SelectorExpr); ok && s2.Sel.Name == "Type" {
							return true
						}
					}
				}
				return false
			}
			okT := false
			for _, cl := range f.Calls("xmpp.bindIQ.WriteXML") {
				cp, _ := g.Where(cl)
				if g.Reachable(g.After(wp), cp, nil, nil) {
					okT = g.MustPassBefore(g.After(wp), cp, setsErrType, nil) || g.MustPassBefore(g.Entry(), wp, setsErrType, nil)
				}
			}
			c.r.Check("C12.6", f, "error reply has type error", "K: a reply that carries the callback's stanza error is sent with type='error'", w.Stmt.Pos(), okT, "the reply carries an <error/> but its type stays 'result'")
		}
	}
	for _, cl := range f.Calls("xmpp.Session.UpdateAddr") {
		pt, _ := g.Where(cl)
		c.domAny("C12.5", f, cl, "UpdateAddr [our request id]", []string{"eq(*.ID,internal/attr.RandomID())", "eq(internal/attr.RandomID(),*.ID)"})
		c.dom("C12.5", f, cl, "UpdateAddr [result]", []string{"eq(*.Type,stanza.ResultIQ)"})
		// ... that actually names an address (a result without <jid/> must not
		// replace the session's address by the empty one)
		c.domAny("C12.5", f, cl, "UpdateAddr [an address was assigned]", []string{"!jid.JID.Equal[*.Bind.JID](jid.JID{})", "!jid.JID.Equal[jid.JID{}](*.Bind.JID)", "!eq(jid.JID.String[*.Bind.JID](),\"\")"})
		okArg := len(cl.Args) == 1 && eng.Glob("*.Bind.JID", f.Norm(cl.Args[0], &pt))
		c.r.Check("C12.5", f, "UpdateAddr argument", "P: the session reports the address the server assigned", cl.Pos(), okArg, "argument is "+f.Norm(cl.Args[0], &pt))
	}
	nOwn := 0
	// C12.7 the reply's verdict comes from its own attributes: encoding/xml
	// fills the embedded stanza.IQ's ID and Type from every attribute with that
	// local name, whatever its namespace (x:id, x:type), the last one winning.
	// Between the DecodeElement of the reply and UpdateAddr, both fields are
	// re-assigned from attr.Own (the element's unqualified attributes).
	for _, cl := range f.Calls("xmpp.Session.UpdateAddr") {
		pt, _ := g.Where(cl)
		for _, dec := range f.Calls("encoding/xml.Decoder.DecodeElement") {
			dp, ok := g.Where(dec)
			if !ok || !g.Reachable(g.After(dp), pt, nil, nil) || len(dec.Args) != 2 {
				continue
			}
			targ := ast.Unparen(dec.Args[0])
			if u, isAddr := targ.(*ast.UnaryExpr); isAddr {
				targ = u.X
			}
			target := rootLocal(f, targ)
			if target == nil {
				continue
			}
			for _, fld := range []struct{ field, attr string }{{"ID", "id"}, {"Type", "type"}} {
				fld := fld
				isOwn := func(q eng.Point, nd ast.Node) bool {
					as, ok := nd.(*ast.AssignStmt)
					if !ok {
						return false
					}
					for i, l := range as.Lhs {
						sel, ok := ast.Unparen(l).(*ast.SelectorExpr)
						if !ok || sel.Sel.Name != fld.field || rootLocal(f, sel.X) != target {
							continue
						}
						var rhs string
						if len(as.Rhs) == len(as.Lhs) {
							rhs = f.Norm(as.Rhs[i], &q)
						} else if len(as.Rhs) == 1 {
							rhs = f.Norm(as.Rhs[0], &q) + "#" + strconv.Itoa(i)
						}
						if eng.Glob("*internal/attr.Own(*.Attr,\""+fld.attr+"\")#1*", rhs) {
							return true
						}
					}
					return false
				}
				c.r.Check("C12.7", f, "reply "+fld.attr+" taken from the reply's own attribute", "E-dec: between decoding the bind reply and acting on it, the "+fld.field+" field is re-assigned from attr.Own(start.Attr, \""+fld.attr+"\"): an attribute of a foreign namespace with the same local name does not decide", dec.Pos(), g.MustPassBefore(g.After(dp), pt, isOwn, nil), "the "+fld.field+" that is compared is the one encoding/xml filled in: x:"+fld.attr+" from any namespace overrides the reply's own "+fld.attr)
				nOwn++
			}
		}
	}
	c.r.Floor("C12.7", "own-attribute re-assignments of the bind reply", nOwn, 2)
	// the request id in the literal is the one compared
	for _, cl := range f.WalkLits("stanza.IQ") {
		pt, _ := g.Where(cl)
		if idv := structLitField(cl, "ID"); idv != nil && f.Norm(idv, &pt) == "internal/attr.RandomID()" {
			if t := structLitField(cl, "Type"); t != nil {
				c.r.Check("C12.5", f, "bind request type", "K: the request is an IQ of type set with a fresh id", cl.Pos(), f.Norm(t, &pt) == "stanza.SetIQ", "type is "+f.Norm(t, &pt))
			}
		}
	}
	// bindPayload.TokenReader: guard/use agreement
	tr := c.fn("C12.5", "", "bindPayload.TokenReader")
	if tr != nil {
		tg := tr.Graph()
		n := 0
		for _, l := range tr.Lits {
			// each literal returns CharData of some field; it must be the field its branch tested
			var used string
			l.WalkBody(func(nd ast.Node) bool {
				if cl, ok := nd.(*ast.CallExpr); ok && strings.HasPrefix(l.CalleeID(cl), "conv:encoding/xml.CharData") {
					used = l.Norm(cl.Args[0], nil)
				}
				return true
			})
			pt, ok := tg.Where(l.Lit)
			if !ok {
				continue
			}
			n++
			var want string
			switch {
			case strings.Contains(used, ".Resource"):
				want = "!eq(recv.Resource,\"\")"
			case strings.Contains(used, ".JID"):
				want = "!eq(jid.JID.String[recv.JID](),\"\")"
			}
			okd := false
			if want != "" {
				okd, _ = tg.Dominated(pt, want)
			}
			// element name agreement
			c.r.Check("C12.5", tr, "bind payload branch emitting "+used, "guard/use agreement: the character data written in a branch is the field that branch tested non-empty", l.Lit.Pos(), okd, "branch emits "+used+" but is not guarded by a non-empty test of that field")
		}
		c.r.Floor("C12.5", "bind payload branches", n, 2)
		// element names
		for _, cl := range tr.WalkLits("encoding/xml.StartElement") {
			pt, _ := tg.Where(cl)
			name := tr.Norm(cl, &pt)
			var want string
			switch {
			case strings.Contains(name, "Local:\"resource\""):
				want = "!eq(recv.Resource,\"\")"
			case strings.Contains(name, "Local:\"jid\""):
				want = "!eq(jid.JID.String[recv.JID](),\"\")"
			default:
				continue
			}
			c.dom("C12.5", tr, cl, "bind payload element "+name, []string{want})
		}
	}
	// ---- receiver ---------------------------------------------------------------
	nresp := 0
	for _, cl := range f.WalkLits("stanza.IQ") {
		pt, _ := g.Where(cl)
		if ok, _ := g.Dominated(pt, "all(*,xmpp.Received)"); !ok {
			continue
		}
		nresp++
		get := func(n string) string {
			if v := structLitField(cl, n); v != nil {
				return f.Norm(v, &pt)
			}
			return ""
		}
		c.r.Check("C12.6", f, "bind response id", "K: the answer carries the own (unqualified) id attribute of the request", cl.Pos(), eng.Glob("internal/attr.Own(*.Attr,\"id\")#1", get("ID")), "ID is "+get("ID"))
		c.r.Check("C12.6", f, "bind response type", "K: the answer has type result", cl.Pos(), get("Type") == "stanza.ResultIQ", "Type is "+get("Type"))
		c.r.Check("C12.6", f, "bind response addresses", "K: To/From are the request's From/To", cl.Pos(), eng.Glob("*.IQ.To", get("From")) && eng.Glob("*.IQ.From", get("To")), "From="+get("From")+" To="+get("To"))
	}
	c.r.Floor("C12.6", "bind response literal", nresp, 1)
	// the bound address: callback or RemoteAddr().WithResource(attr.RandomID())
	nj := 0
	for _, cl := range f.WalkLits("xmpp.bindPayload") {
		pt, _ := g.Where(cl)
		jv := structLitField(cl, "JID")
		if jv == nil {
			continue
		}
		v := rootLocal(f, jv)
		if v == nil {
			continue
		}
		nj++
		okj := true
		why := ""
		for _, d := range g.ReachingDefs(v, pt) {
			if d.Kind == eng.DefZero {
				continue
			}
			src := ""
			if d.RHS != nil {
				src = f.Norm(d.RHS, &d.At)
			}
			switch {
			case eng.Glob("outer.p0(xmpp.Session.RemoteAddr[p1](),*.Bind.Resource)", src) || eng.Glob("local:*(xmpp.Session.RemoteAddr[p1](),*.Bind.Resource)", src):
				if ok, _ := g.Dominated(d.At, "!eq(outer.p0,nil)"); !ok {
					okj, why = false, "callback used without a nil test"
				}
			case src == "jid.JID.WithResource[xmpp.Session.RemoteAddr[p1]()](internal/attr.RandomID())":
			default:
				okj, why = false, "bound address defined by "+src
			}
		}
		c.r.Check("C12.6", f, "bound address", "P: the address is chosen by the application's callback (for the session's peer and the requested resource) or is the peer's address with a random resource generated for THIS request", cl.Pos(), okj, why)
	}
	c.r.Floor("C12.6", "bound address literal", nj, 1)
	// callback errors that are not stanza errors are returned: pending-error discipline
	errDiscipline(c, "C12.6", []*eng.Fn{f}, acceptNEG, false)
}

// freshDecodeTargets: every xml Decode/DecodeElement target in f is a zero
// value on every path (its reaching definitions are empty composite literals,
// zero declarations or new(T)).
func freshDecodeTargets(c *cx, id string, f *eng.Fn, floor int) {
	g := f.Graph()
	n := 0
	for _, cl := range f.AllCalls() {
		cid := f.CalleeID(cl)
		if cid != "encoding/xml.Decoder.DecodeElement" && cid != "encoding/xml.Decoder.Decode" {
			continue
		}
		n++
		pt, _ := g.Where(cl)
		target := ast.Unparen(cl.Args[0])
		if u, ok := target.(*ast.UnaryExpr); ok && u.Op == token.AND {
			target = ast.Unparen(u.X)
		}
		ok := false
		why := "target " + f.Norm(cl.Args[0], nil) + " is not a local value"
		if idn, isID := target.(*ast.Ident); isID {
			if v, isVar := f.Info().ObjectOf(idn).(*types.Var); isVar && eng.IsLocal(v) {
				ds := g.ReachingDefs(v, pt)
				ok = len(ds) > 0
				for _, d := range ds {
					fresh := false
					switch d.Kind {
					case eng.DefZero:
						fresh = true
					case eng.DefPlain:
						if d.RHS != nil {
							r := ast.Unparen(d.RHS)
							if u, isU := r.(*ast.UnaryExpr); isU && u.Op == token.AND {
								r = ast.Unparen(u.X)
							}
							if lit, isLit := r.(*ast.CompositeLit); isLit && len(lit.Elts) == 0 {
								fresh = true
							}
							if call, isCall := r.(*ast.CallExpr); isCall && f.CalleeID(call) == "builtin.new" {
								fresh = true
							}
						}
					}
					if !fresh {
						ok = false
						why = "the decode target " + v.Name() + " may hold earlier data (defined at " + c.p.Pos(d.Node.Pos()) + "): attributes missing from the element keep the old values"
					}
				}
			}
		}
		c.r.Check(id, f, "decode target of "+cid, "K: XML is decoded into a fresh zero value", cl.Pos(), ok, why)
	}
	c.r.Floor(id, "decode targets in "+f.Short, n, floor)
}

// c12HeaderBufferPerCall (C12.10): the stream header is assembled in storage
// that belongs to the call. Every local of internal/stream.Send that can be
// written to (its type, or a pointer to it, implements io.Writer) is defined
// only by a fresh allocation - bufio.NewWriter*/bytes.NewBuffer*/new/&T{}/a
// zero declaration - or is the rw parameter itself; no package-level writer
// and no sync.Pool is mentioned. A buffer that outlives the call (a pool, a
// package variable) carries the unsent bytes of a failed header into the next
// session's header: the peer then parses another session's addresses.
func c12HeaderBufferPerCall(c *cx, id string) {
	f := c.fn(id, "internal/stream", "Send")
	if f == nil {
		return
	}
	g := f.Graph()
	var wr *types.Interface
	for _, imp := range f.Pkg.Types.Imports() {
		if imp.Path() == "io" {
			if o := imp.Scope().Lookup("Writer"); o != nil {
				wr, _ = o.Type().Underlying().(*types.Interface)
			}
		}
	}
	if wr == nil {
		c.r.CheckNamed(id, f.Short, "io.Writer", "anchor", f.Pos(), false, "io.Writer not found")
		return
	}
	isWriter := func(t types.Type) bool {
		return types.Implements(t, wr) || types.Implements(types.NewPointer(t), wr)
	}
	n := 0
	seen := map[*types.Var]bool{}
	for _, d := range g.AllDefs() {
		if d.Var == nil || !isWriter(d.Var.Type()) {
			continue
		}
		seen[d.Var] = true
		n++
		ok, why := false, ""
		switch d.Kind {
		case eng.DefParam, eng.DefZero:
			ok = true
		case eng.DefPlain:
			switch x := ast.Unparen(d.RHS).(type) {
			case *ast.CallExpr:
				cid := f.CalleeID(x)
				switch {
				case strings.HasPrefix(cid, "bufio.NewWriter"), strings.HasPrefix(cid, "bytes.NewBuffer"), cid == "builtin.new":
					ok = true
				default:
					why = "defined by " + cid
				}
			case *ast.UnaryExpr:
				_, isLit := ast.Unparen(x.X).(*ast.CompositeLit)
				ok = x.Op == token.AND && isLit
				why = "defined by " + types.ExprString(d.RHS)
			case *ast.CompositeLit:
				ok = true
			default:
				why = "defined by " + types.ExprString(d.RHS)
			}
		default:
			why = "defined by " + c.p.NodeStr(d.Node)
		}
		c.r.Check(id, f, "definition of writer "+d.Var.Name(), "E-alias: the header is assembled in storage allocated by this call", d.Node.Pos(), ok, why+": the buffer can outlive the call and carry bytes of another header")
	}
	// no shared writer or pool mentioned at all
	f.WalkBody(func(nd ast.Node) bool {
		idn, ok := nd.(*ast.Ident)
		if !ok {
			return true
		}
		v, ok := f.Info().Uses[idn].(*types.Var)
		if !ok || v.IsField() || v.Pkg() == nil || v.Parent() != v.Pkg().Scope() {
			return true
		}
		ts := eng.TypeStr(v.Type())
		if isWriter(v.Type()) || strings.Contains(ts, "sync.Pool") {
			c.r.Check(id, f, "use of package-level "+v.Name(), "E-alias: the header is assembled in storage allocated by this call", idn.Pos(), false, "package-level "+ts+" used while assembling the header")
		}
		return true
	})
	c.r.Floor(id, "writer definitions in stream.Send", n, 2)
}

// c12HeaderAddressesWhole (C12.13): the addresses a stream header carries are
// the session's addresses as they are: at every call of internal/stream.Send in
// the negotiator the two address operands are X.String() of a jid.JID value
// (a local, a field, a parameter) - not of something derived from it (Bare(),
// Domain(), a With* copy): a response header that answers from='user@host/r'
// with to='user@host' makes the initiator recover a different address.
func c12HeaderAddressesWhole(c *cx, id string) {
	n := 0
	for _, f := range c.allFns() {
		if !strings.HasPrefix(f.Short, "xmpp.") {
			continue
		}
		for _, cl := range f.Calls("internal/stream.Send") {
			if len(cl.Args) < 7 {
				continue
			}
			for _, ix := range []int{5, 6} {
				n++
				okA, why := false, "the operand is not a call of JID.String"
				if sc, isCall := ast.Unparen(cl.Args[ix]).(*ast.CallExpr); isCall && f.CalleeID(sc) == "jid.JID.String" {
					if sel, isSel := ast.Unparen(sc.Fun).(*ast.SelectorExpr); isSel {
						switch ast.Unparen(sel.X).(type) {
						case *ast.Ident, *ast.SelectorExpr:
							okA = true
						default:
							why = "the address is derived (" + types.ExprString(sel.X) + ") before it is written"
						}
					}
				}
				c.r.Check(id, f, "header address operand "+itoa(ix), "K: the to / from of a header that is sent is the String() of the session's address itself, not of a part of it", cl.Args[ix].Pos(), okA, why+": the peer recovers an address that differs from the one this side uses")
			}
		}
	}
	c.r.Floor(id, "address operands of stream.Send in the negotiator", n, 4)
	// the response header (receiving role) is addressed from what the header it
	// answers said: to = that header's from, from = that header's to - also
	// when this is the header from which the origin is first learned
	okResp := false
	for _, f := range c.allFns() {
		if !strings.HasPrefix(f.Short, "xmpp.negotiator") {
			continue
		}
		for _, cl := range f.Calls("internal/stream.Send") {
			if len(cl.Args) < 7 {
				continue
			}
			cp, _ := f.Graph().Where(cl)
			if f.Norm(cl.Args[5], &cp) == "jid.JID.String[p1.From]()" && f.Norm(cl.Args[6], &cp) == "jid.JID.String[p1.To]()" {
				okResp = true
			}
		}
	}
	c.r.CheckNamed(id, "xmpp.negotiator$1", "response header addresses", "K: one Send of the negotiator (the response header) has to = in.From and from = in.To of the header just read", 0, okResp, "no Send is addressed with the addresses of the header it answers (a stale origin: the first response to a client that states its from carries no to)")
}

// c12OriginHandedOnWhole (C12.15): the constructors outside the root package
// (websocket, component, dial) hand the caller's address to xmpp.NewSession /
// ReceiveSession as the origin without dropping parts of it: the origin
// operand is an identifier (the parameter, or the parameter reassigned as a
// whole), never X.Bare() / X.Domain() of it - the initiator's header then
// lacks its own address and bind requests no resource. (The LOCATION operand
// is the domain by design.)
func c12OriginHandedOnWhole(c *cx, id string) {
	n := 0
	for _, f := range c.allFns() {
		if f.Body == nil || strings.HasPrefix(f.Short, "xmpp.") {
			continue
		}
		for _, cl := range f.AllCalls() {
			cid := f.CalleeID(cl)
			if cid != "xmpp.NewSession" { // ReceiveSession takes no addresses
				continue
			}
			if len(cl.Args) < 3 {
				continue
			}
			n++
			origin := ast.Unparen(cl.Args[2])
			_, isID := origin.(*ast.Ident)
			c.r.Check(id, f, "origin operand of "+cid, "K: the origin address handed to the session is the caller's address as a whole", origin.Pos(), isID, "the origin is "+types.ExprString(origin)+": parts of the caller's address are dropped before the stream is opened")
		}
	}
	c.r.Floor(id, "session constructors outside the root package", n, 2)
}

// c12BindReplyIDFirst (C12.17): "a reply with another id is not the answer": on
// the initiating side of resource binding everything that is concluded from
// the reply - the error it carries, the address it assigns - is concluded
// behind the comparison of its id with the request's id. Every return of the
// reply's own error (resp.Err) and every UpdateAddr lies behind the edge
// resp.ID == reqID (a stray or forged error reply is otherwise reported as the
// server's refusal of OUR request).
func c12BindReplyIDFirst(c *cx, id string) {
	bf := c.fn(id, "", "bind")
	if bf == nil {
		return
	}
	n := 0
	for _, f := range bf.Lits {
		g := f.Graph()
		if len(g.EdgesMatching("eq(internal/attr.RandomID(),*.ID)"))+len(g.EdgesMatching("eq(*.ID,internal/attr.RandomID())")) == 0 {
			continue
		}
		pats := []string{"eq(internal/attr.RandomID(),*.ID)", "eq(*.ID,internal/attr.RandomID())"}
		for _, rs := range g.Returns {
			if len(rs.Results) != 3 {
				continue
			}
			rp, _ := g.Where(rs)
			if strings.HasSuffix(f.Norm(rs.Results[2], &rp), ".Err") || strings.Contains(f.Norm(rs.Results[2], &rp), "&local:stanzaErr") {
				n++
				c.domAny(id, f, rs, "the reply's own error returned", pats)
			}
		}
		for _, cl := range f.Calls("xmpp.Session.UpdateAddr") {
			n++
			c.domAny(id, f, cl, "address taken from the reply", pats)
		}
	}
	c.r.Floor(id, "conclusions drawn from the bind reply", n, 2)
}

// c12UpdateAddrStores (C12.19): resource binding reports the address the
// server assigned by calling Session.UpdateAddr and (like every caller in the
// module) does not look at the result. UpdateAddr refuses only an established
// session: from the edge on which the Ready bit is not set, every return has
// passed the stores of the new address into in.Info.To and out.Info.From, and
// it answers true. A second reason to refuse ("another domain", "no
// resourcepart") makes bind succeed while LocalAddr keeps the old address.
func c12UpdateAddrStores(c *cx, id string) {
	f := c.fn(id, "", "(*Session).UpdateAddr")
	if f == nil {
		return
	}
	g := f.Graph()
	edges := append(g.EdgesMatching("!all(recv.state,xmpp.Ready)"), g.EdgesMatching("!all(xmpp.Session.State[recv](),xmpp.Ready)")...)
	c.r.Floor(id, "tests of the Ready bit in UpdateAddr", len(edges), 1)
	n := 0
	for _, ce := range edges {
		from := g.EdgeTarget(ce.E)
		for _, rs := range returnsFrom(f, from, nil) {
			n++
			rp, _ := g.Where(rs)
			for _, cls := range []string{"recv.in.Info.To", "recv.out.Info.From"} {
				cls := cls
				isStore := func(q eng.Point, nd ast.Node) bool {
					as, ok := nd.(*ast.AssignStmt)
					if !ok || as.Tok != token.ASSIGN || len(as.Lhs) != len(as.Rhs) {
						return false
					}
					for i, l := range as.Lhs {
						if f.Norm(l, nil) == cls && f.Norm(as.Rhs[i], nil) == "p0" {
							return true
						}
					}
					return false
				}
				c.r.Check(id, f, "return of UpdateAddr on a session that is not ready ["+cls+"]", "O: every path from the not-ready edge to a return stores the parameter into "+cls, rs.Pos(), g.MustPassBefore(from, rp, isStore, nil), "UpdateAddr can return without the store although the session is not established: bind succeeds and the session keeps reporting its old address")
			}
			okv := len(rs.Results) == 1 && f.Norm(rs.Results[0], &rp) == "true"
			c.r.Check(id, f, "return of UpdateAddr on a session that is not ready [value]", "K: true", rs.Pos(), okv, "the update is reported as refused")
		}
	}
	c.r.Floor(id, "returns of UpdateAddr behind the not-ready edge", n, 1)
}

// c12FreshRandomness (C12.20): stream ids and the resourceparts the receiving
// side assigns are "fresh random" values: RandomID and RandomLen draw their
// bytes from crypto/rand.Reader itself, per call. The randomID helper is called
// with that reader and nothing else (a package-level pool that hands out a
// block of bytes, refilled "when used up", repeats bytes when a request
// straddles the end of the block: two binds get the same resource).
func c12FreshRandomness(c *cx, id string) {
	n := 0
	for _, f := range c.allFns() {
		if !strings.HasPrefix(f.Short, "internal/attr.") {
			continue
		}
		for _, cl := range f.Calls("internal/attr.randomID") {
			if len(cl.Args) != 2 {
				continue
			}
			n++
			src := f.Norm(cl.Args[1], nil)
			c.r.Check(id, f, "source of random identifiers", "K: identifiers are read from crypto/rand.Reader on every call", cl.Pos(), src == "var:crypto/rand.Reader" || src == "crypto/rand.Reader", "the bytes come from "+src)
		}
	}
	c.r.Floor(id, "calls of randomID in internal/attr", n, 2)
}
