package rules

import (
	"fmt"
	"go/ast"
	"go/token"
	"go/types"
	"reflect"
	"sort"
	"strconv"
	"strings"

	"verif/checker/eng"
)

func init() {
	Registry["C20"] = Rule{
		Meta: eng.Meta{
			Explanation: "Structural necessary conditions of 'the entity-capabilities hash is canonical': in Info.AppendHash every loop that feeds the hash ranges over a collection on which a sort call lies on every path before the loop (identities, features, forms, field names, values) (C20.1, sorted-before-hashed); the identity comparator orders by category, then type, then language with one '!=' / '<' pair each, features by var, forms by FORM_TYPE (C20.2); the identity format is \"%s/%s/%s/%s<\" with Category, Type, Lang, Name in that order, every feature / form type / field name / value written to the hash is followed by '<' on every path, FORM_TYPE is excluded from the field list and its value is written (C20.3); Hash is string(AppendHash(nil, h)) (C20.4); no panic: subtractive make sizes and the index/assertion/nil rules of C09 over AppendHash and the form accessors it uses (C20.5). Order independence then holds for every permutation because it is a property of the code.",
			NotDecided:  "equality with XEP-0115 section 5.1 on concrete inputs beyond the layout constants (e.g. the collation of sort.Strings versus i;octet), hash function choice.",
			Trusted:     trustedCommon,
		},
		Run: runC20,
	}
}

func writesHash(f *eng.Fn, nd ast.Node, hname string) []*ast.CallExpr {
	var out []*ast.CallExpr
	ast.Inspect(nd, func(x ast.Node) bool {
		cl, ok := x.(*ast.CallExpr)
		if !ok {
			return true
		}
		id := f.CalleeID(cl)
		if (id == "io.WriteString" || strings.HasPrefix(id, "fmt.Fprint")) && len(cl.Args) > 0 && f.Norm(cl.Args[0], nil) == hname {
			out = append(out, cl)
		}
		if id == "hash.Hash.Write" || id == "io.Writer.Write" {
			if sel, ok := ast.Unparen(cl.Fun).(*ast.SelectorExpr); ok && f.Norm(sel.X, nil) == hname {
				out = append(out, cl)
			}
		}
		return true
	})
	return out
}

func runC20(p *eng.Prog, r *eng.Report, tier string) {
	c := &cx{p, r, tier}
	c.r.Floor("C20.29", "functions scanned for package-level state", r17NoHiddenGlobalState(c, "C20.29"), 500)
	r18ValuesAllKept(c, "C20.28")
	r17HashIsAppendHash(c, "C20.27")
	f := c.fn("C20.1", "disco", "Info.AppendHash")
	if f == nil {
		return
	}
	g := f.Graph()
	c20AccumulatorsPerIteration(c, "C20.8", f)
	c20WholeListsHashed(c, "C20.22", f)
	c20EveryNameCanBeLookedUp(c, "C20.23")
	// C20.25 (= C19.23): encoding a form (the disco#info responder submits and encodes its forms for every
	// request) does not write into the form: the hash of the value before and after serving it is the same
	c.r.Floor("C20.25", "encoders of form and disco examined for writes through the receiver", encodersReadOnly(c, "C20.25", func(f *eng.Fn) bool {
		return strings.HasPrefix(f.Short, "form.") || strings.HasPrefix(f.Short, "disco.") || strings.HasPrefix(f.Short, "disco/")
	}), 5)
	c.r.Floor("C20.24", "closures returned by the constructors of package form", optionClosuresKeepNoState(c, "C20.24", "form."), 5)
	c20SortsCopies(c, "C20.9")
	c20ComparatorsAreOrders(c, "C20.10")
	c20DecoderKeepsEveryValue(c, "C20.11")
	c20ValuesOfTheFieldItself(c, "C20.12", f)
	c20EveryFieldReported(c, "C20.13")
	xmlLangTagsNamespaced(c, "C20.14")
	noLossyInDecoders(c, "C20.15", func(f *eng.Fn) bool {
		return strings.HasPrefix(f.Short, "form.") || strings.HasPrefix(f.Short, "disco/info.")
	}, 5)
	// C20.16-C20.21 "including ones decoded from a peer's reply": the decoders
	// of the forms and of the info payload keep what the peer sent (the same
	// rules as under C19, over the packages the hash reads)
	inHashed := func(f *eng.Fn) bool {
		return strings.HasPrefix(f.Short, "form.") || strings.HasPrefix(f.Short, "disco/info.") || strings.HasPrefix(f.Short, "disco.")
	}
	c.r.Floor("C20.16", "entries appended by the decoders of the hashed payloads", decodedEntryAppended(c, "C20.16", inHashed), 1)
	c.r.Floor("C20.17", "stores of the decoders of the hashed payloads", lossyDecodeStores(c, "C20.17", inHashed), 5)
	c.r.Floor("C20.18", "start-element arms in the token loops of the hashed payloads", decoderLoopConsumes(c, "C20.18", inHashed), 1)
	c.r.Floor("C20.19", "start-element edges in the token loops of the hashed payloads", decoderLoopVisitsEveryChild(c, "C20.19", inHashed), 1)
	decodeTargetsAreFresh(c, "C20.20", inHashed, 1)
	decodersKeepEveryElement(c, "C20.21", inHashed, 1)
	// C20.26 (= C19.9): Skip never runs right after the element's own end tag (an empty <title/> in front
	// of the fields would swallow the rest of the form: the decoded reply hashes without its fields)
	decoderSkipTypestate(c, "C20.26", inHashed, 1)
	hname := "p1"
	// ---- C20.4b the encoder's output buffer never overlaps the digest ----------
	nenc := 0
	for _, cl := range f.Calls("encoding/base64.Encoding.Encode") {
		nenc++
		pt, _ := g.Where(cl)
		okf, why := freshSlice(f, cl.Args[0], pt, map[*eng.Def]bool{})
		c.r.Check("C20.4", f, "base64 output buffer", "E-alias: the destination of base64 Encode is freshly allocated on every path (Encode on overlapping memory overwrites digest bytes it has not read: AppendHash(buf[:0]) would differ from Hash)", cl.Pos(), okf, why)
	}
	c.r.Floor("C20.4", "base64 Encode calls in AppendHash", nenc, 1)
	// ---- C20.1 sorted before hashed -----------------------------------------------
	n := 0
	sortCalls := append(append(f.Calls("sort.Slice"), f.Calls("sort.SliceStable")...), f.Calls("sort.Strings")...)
	f.WalkBody(func(nd ast.Node) bool {
		rs, ok := nd.(*ast.RangeStmt)
		if !ok {
			return true
		}
		if len(writesHash(f, rs.Body, hname)) == 0 {
			return true
		}
		n++
		xp, _ := g.Where(rs.X)
		xs := f.Norm(rs.X, nil)
		isSort := func(q eng.Point, x ast.Node) bool {
			for _, sc := range sortCalls {
				if containsNode(x, sc) && len(sc.Args) > 0 && f.Norm(sc.Args[0], nil) == xs {
					return true
				}
			}
			return false
		}
		from := g.Entry()
		// for collections built inside an enclosing loop the sort must follow the last definition
		if v := rootLocal(f, rs.X); v != nil {
			if _, isParam := interface{}(nil), false; !isParam {
				for _, d := range g.DefsOf(v) {
					if d.Kind == eng.DefParam {
						continue
					}
					if g.Reachable(g.After(d.At), xp, nil, nil) {
						c.r.Check("C20.1", f, "loop over "+xs+" [after its definition at "+c.p.Pos(d.Node.Pos())+"]", "O: the collection is sorted between every definition of it and the loop that hashes it", rs.Pos(), g.MustPassBefore(g.After(d.At), xp, isSort, nil), "the hashing loop is reachable from the definition without a sort: the hash depends on the order of "+xs)
					}
				}
			}
		}
		c.r.Check("C20.1", f, "loop over "+xs, "O: every path to a loop that feeds the hash passes a sort of the collection it ranges over", rs.Pos(), g.MustPassBefore(from, xp, isSort, nil), "the hashing loop is reachable without a sort: the hash depends on the order of "+xs)
		return true
	})
	c.r.Floor("C20.1", "hashing loops", n, 5)
	// fields are appended inside the ForFields callback: the sort follows the call
	for _, sc := range f.Calls("sort.Strings") {
		if v := rootLocal(f, sc.Args[0]); v != nil && v.Name() == "fields" {
			sp, _ := g.Where(sc)
			isFF := func(q eng.Point, x ast.Node) bool { return f.ContainsCall(x, "form.Data.ForFields") != nil }
			c.r.Check("C20.1", f, "field names sorted after they are collected", "O: sort.Strings(fields) comes after ForFields filled the list", sc.Pos(), g.MustPassBefore(g.Entry(), sp, isFF, nil), "fields sorted before they are collected")
		}
	}

	// ---- C20.2 comparators ----------------------------------------------------------------
	for _, sc := range f.Calls("sort.Slice") {
		xs := f.Norm(sc.Args[0], nil)
		lit, ok := sc.Args[1].(*ast.FuncLit)
		if !ok {
			continue
		}
		lf := c.p.FnOfLit(lit)
		switch {
		case strings.HasSuffix(xs, ".Identity"):
			var fields []string
			okShape := true
			for _, st := range stripNoops(lit.Body.List) {
				switch s := st.(type) {
				case *ast.AssignStmt:
				case *ast.IfStmt, *ast.SwitchStmt:
					cond, body, els, isIf := asIfIn(lf, st)
					if !isIf || els != nil {
						okShape = false
						continue
					}
					be, ok := ast.Unparen(cond).(*ast.BinaryExpr)
					if !ok || be.Op != token.NEQ || len(body) != 1 {
						okShape = false
						continue
					}
					fx, _ := be.X.(*ast.SelectorExpr)
					fy, _ := be.Y.(*ast.SelectorExpr)
					rs, _ := body[0].(*ast.ReturnStmt)
					if fx == nil || fy == nil || rs == nil || fx.Sel.Name != fy.Sel.Name {
						okShape = false
						continue
					}
					lt, ok := rs.Results[0].(*ast.BinaryExpr)
					sameOrder := ok && lf.Norm(lt.X, nil) == lf.Norm(be.X, nil) && lf.Norm(lt.Y, nil) == lf.Norm(be.Y, nil)
					swapped := ok && lf.Norm(lt.X, nil) == lf.Norm(be.Y, nil) && lf.Norm(lt.Y, nil) == lf.Norm(be.X, nil)
					if !ok || lt.Op != token.LSS || !(sameOrder || swapped) {
						okShape = false
					}
					fields = append(fields, fx.Sel.Name)
				case *ast.ReturnStmt:
					if lf.Norm(s.Results[0], nil) != "false" {
						okShape = false
					}
				default:
					okShape = false
				}
			}
			c.r.Check("C20.2", f, "identity comparator", "T: identities are ordered by Category, then Type, then Lang (one != / < pair each, then 'false')", lit.Pos(), okShape && strings.Join(fields, ",") == "Category,Type,Lang", "comparator compares "+strings.Join(fields, ","))
		case strings.HasSuffix(xs, ".Features"):
			okc := len(stripNoops(lit.Body.List)) == 1
			if okc {
				rs, ok := stripNoops(lit.Body.List)[0].(*ast.ReturnStmt)
				okc = ok && eng.Glob("(*.Features[p0].Var < *.Features[p1].Var)", lf.Norm(rs.Results[0], nil))
			}
			c.r.Check("C20.2", f, "feature comparator", "T: features are ordered by Var", lit.Pos(), okc, "")
		case strings.HasSuffix(xs, ".Form"):
			okc := false
			ast.Inspect(lit.Body, func(x ast.Node) bool {
				if cl, ok := x.(*ast.CallExpr); ok && lf.CalleeID(cl) == "form.Data.GetString" {
					if s, _ := lf.ConstStr(cl.Args[0]); s == "FORM_TYPE" {
						okc = true
					}
				}
				return true
			})
			c.r.Check("C20.2", f, "form comparator", "T: forms are ordered by their FORM_TYPE value", lit.Pos(), okc, "comparator does not read FORM_TYPE")
		}
	}

	// ---- C20.2b the sort key covers what is hashed ----------------------------------------
	// sort.Slice is not stable and leaves elements with equal keys in an order
	// that depends on the input order: whatever part of an element reaches the
	// hash must be part of the comparator's key, unless the property's
	// quantifier excludes elements that differ only in that part.
	keyExempt := map[string]string{
		"[]disco/info.Identity|.Name": "the property quantifies over identities with distinct category/type/language: two identities never tie on the key",
	}
	for _, sc := range f.Calls("sort.Slice") {
		lit, ok := sc.Args[1].(*ast.FuncLit)
		if !ok {
			continue
		}
		lf := c.p.FnOfLit(lit)
		xs := f.Norm(sc.Args[0], nil)
		// the collection is named by its type in the obligation's key (the
		// spelling of the expression - a field of the receiver or a sorted copy -
		// is not part of the rule)
		role := eng.TypeStr(f.Info().TypeOf(sc.Args[0]))
		var collObj types.Object
		if idn, ok := ast.Unparen(sc.Args[0]).(*ast.Ident); ok {
			collObj = f.Info().ObjectOf(idn)
		}
		// accessors the comparator applies to an element X[i]
		accessorsOf := func(fn *eng.Fn, root ast.Node, isElem func(e ast.Expr) bool) map[string]bool {
			out := map[string]bool{}
			ast.Inspect(root, func(x ast.Node) bool {
				switch y := x.(type) {
				case *ast.SelectorExpr:
					if isElem(y.X) {
						out["."+y.Sel.Name] = true
					}
				}
				return true
			})
			return out
		}
		// locals of the comparator bound to X[a] / X[b]
		elemLocals := map[types.Object]bool{}
		isElemInLess := func(e ast.Expr) bool {
			e = ast.Unparen(e)
			if ix, ok := e.(*ast.IndexExpr); ok {
				if bi, isId := ast.Unparen(ix.X).(*ast.Ident); isId && collObj != nil {
					return lf.Info().ObjectOf(bi) == collObj
				}
				return lf.Norm(ix.X, nil) == strings.Replace(xs, "recv.", "outer.recv.", 1) || strings.HasSuffix(lf.Norm(ix.X, nil), strings.TrimPrefix(xs, "recv"))
			}
			if idn, ok := e.(*ast.Ident); ok {
				return elemLocals[lf.Info().ObjectOf(idn)]
			}
			return false
		}
		ast.Inspect(lit.Body, func(x ast.Node) bool {
			if as, ok := x.(*ast.AssignStmt); ok && len(as.Lhs) == len(as.Rhs) {
				for i, r := range as.Rhs {
					if isElemInLess(r) {
						if idn, ok := as.Lhs[i].(*ast.Ident); ok {
							elemLocals[lf.Info().ObjectOf(idn)] = true
						}
					}
				}
			}
			return true
		})
		keys := accessorsOf(lf, lit.Body, isElemInLess)
		// the loop that hashes the same collection
		f.WalkBody(func(nd ast.Node) bool {
			rs, ok := nd.(*ast.RangeStmt)
			if !ok {
				return true
			}
			sameColl := f.Norm(rs.X, nil) == xs
			if ri, isId := ast.Unparen(rs.X).(*ast.Ident); isId && collObj != nil {
				sameColl = f.Info().ObjectOf(ri) == collObj
			}
			if !ok || !sameColl || len(writesHash(f, rs.Body, hname)) == 0 {
				return true
			}
			vid, _ := rs.Value.(*ast.Ident)
			if vid == nil {
				return true
			}
			vo := f.Info().ObjectOf(vid)
			isElem := func(e ast.Expr) bool {
				idn, ok := ast.Unparen(e).(*ast.Ident)
				return ok && f.Info().ObjectOf(idn) == vo
			}
			content := accessorsOf(f, rs.Body, isElem)
			var missing []string
			for a := range content {
				if keys[a] {
					continue
				}
				if _, ex := keyExempt[role+"|"+a]; ex {
					continue
				}
				missing = append(missing, a)
			}
			sort.Strings(missing)
			c.r.Check("C20.2", f, "sort key of "+role+" covers what is hashed", "T: every accessor of an element used in the hashing loop is also read by the comparator (ties are left in input order), up to the reasoned exemptions", sc.Pos(), len(missing) == 0, "the loop hashes "+strings.Join(missing, ", ")+" of each element but the comparator does not compare it: two elements that tie on the key are hashed in input order")
			return true
		})
	}

	// ---- C20.6 every element of a hashed collection feeds the hash -----------------------
	// (an element skipped by a continue/break is missing from the string of
	// XEP-0115 5.1 and makes two different infos collide)
	nl := 0
	f.WalkBody(func(nd ast.Node) bool {
		rs, ok := nd.(*ast.RangeStmt)
		if !ok {
			return true
		}
		// direct writes of this loop's body (not those of nested loops)
		var direct []*ast.CallExpr
		for _, w := range writesHash(f, rs.Body, hname) {
			nested := false
			for p := g.Parent(w); p != nil && p != rs; p = g.Parent(p) {
				switch p.(type) {
				case *ast.RangeStmt, *ast.ForStmt, *ast.FuncLit:
					nested = true
				}
			}
			if !nested {
				direct = append(direct, w)
			}
		}
		if len(direct) == 0 {
			return true
		}
		// prefer the writes that mention the loop's value variable
		if vid, ok := rs.Value.(*ast.Ident); ok && vid.Name != "_" {
			vo := f.Info().ObjectOf(vid)
			var ment []*ast.CallExpr
			for _, w := range direct {
				uses := false
				ast.Inspect(w, func(x ast.Node) bool {
					if idn, ok := x.(*ast.Ident); ok && f.Info().ObjectOf(idn) == vo {
						uses = true
					}
					return !uses
				})
				if uses {
					ment = append(ment, w)
				}
			}
			if len(ment) > 0 {
				direct = ment
			}
		}
		body, head, done, okp := g.LoopPoints(rs)
		if !okp {
			c.r.Check("C20.6", f, "loop over "+f.Norm(rs.X, nil)+" feeds the hash on every iteration", "loop located in the graph", rs.Pos(), false, "loop blocks not found")
			return true
		}
		nl++
		isWrite := func(q eng.Point, x ast.Node) bool {
			for _, w := range direct {
				if containsNode(x, w) {
					return true
				}
			}
			return false
		}
		okw := g.MustPassBefore(body, head, isWrite, nil) && g.MustPassBefore(body, done, isWrite, nil)
		c.r.Check("C20.6", f, "loop over "+f.Norm(rs.X, nil)+" feeds the hash on every iteration", "O: every path through one iteration (to the next iteration or out of the loop) passes the write of the element", rs.Pos(), okw, "an iteration can end without writing its element to the hash: the element is missing from the verification string")
		return true
	})
	c.r.Floor("C20.6", "hashing loops", nl, 5)

	// ---- C20.7 the form type is readable: Data.Get yields a string for hidden fields ------
	// (AppendHash reads FORM_TYPE with GetString; any other dynamic type gives "")
	if gf := c.fn("C20.7", "form", "(*Data).Get"); gf != nil {
		// assume the field's type is hidden (or empty): the edges that contradict
		// it are cut; every return that stays reachable in the region that
		// dispatches on the type yields a string. (Independent of whether the
		// dispatch is written as a switch or as an if chain.)
		nr := 0
		g := gf.Graph()
		var others []string
		if pk := c.p.Pkg("form"); pk != nil {
			for _, nm := range pk.Types.Scope().Names() {
				if k, ok := pk.Types.Scope().Lookup(nm).(*types.Const); ok && eng.TypeStr(k.Type()) == "form.FieldType" {
					others = append(others, "form."+nm)
				}
			}
		}
		for _, hid := range []string{"form.TypeHidden", "\"\""} {
			assume := []string{"eq(*.typ," + hid + ")"}
			for _, o := range others {
				if o != hid {
					assume = append(assume, "!eq(*.typ,"+o+")")
				}
			}
			if hid != "\"\"" {
				assume = append(assume, "!eq(*.typ,\"\")")
			}
			cut := g.CutFor(assume...)
			for _, rs := range g.Returns {
				if len(rs.Results) != 2 {
					continue
				}
				pt, _ := g.Where(rs)
				if !g.Reachable(g.Entry(), pt, cut, nil) {
					continue
				}
				inDispatch := false
				for _, a := range g.FactsAt(pt) {
					if strings.Contains(a, ".typ,") {
						inDispatch = true
					}
				}
				if !inDispatch {
					continue
				}
				nr++
				t := gf.Info().TypeOf(rs.Results[0])
				c.r.Check("C20.7", gf, "value returned for a field of type "+strings.Trim(hid, "\""), "T: every return that is reachable for a hidden (or untyped) field yields a string: GetString(\"FORM_TYPE\") in AppendHash reads it", rs.Pos(), t != nil && eng.TypeStr(t) == "string", "returns a value of type "+eng.TypeStr(t)+": GetString gives \"\" and the form type drops out of the hash")
			}
		}
		c.r.Floor("C20.7", "returns in the hidden-field arm of Data.Get", nr, 2)
	}

	// ---- C20.3 layout ---------------------------------------------------------------------------
	nfmt := 0
	for _, cl := range f.Calls("fmt.Fprintf") {
		if f.Norm(cl.Args[0], nil) != hname {
			continue
		}
		nfmt++
		format, _ := f.ConstStr(cl.Args[1])
		var names []string
		for _, a := range cl.Args[2:] {
			if sel, ok := ast.Unparen(a).(*ast.SelectorExpr); ok {
				names = append(names, sel.Sel.Name)
			}
		}
		c.r.Check("C20.3", f, "identity layout", "K: identities are written as category/type/lang/name<", cl.Pos(), format == "%s/%s/%s/%s<" && strings.Join(names, ",") == "Category,Type,Lang,Name", "format "+format+" with "+strings.Join(names, ","))
	}
	c.r.Floor("C20.3", "identity format", nfmt, 1)
	nw := 0
	for _, cl := range f.Calls("io.WriteString") {
		if f.Norm(cl.Args[0], nil) != hname {
			continue
		}
		if _, isConst := f.ConstStr(cl.Args[1]); isConst {
			continue
		}
		nw++
		pt, _ := g.Where(cl)
		// the next write to h on every path is "<"
		bad := ""
		visited := false
		for _, nd := range g.ReachableNodes(g.After(pt), nil) {
			_ = nd
			visited = true
			break
		}
		_ = visited
		isSep := func(q eng.Point, x ast.Node) bool {
			for _, w := range writesHash(f, x, hname) {
				if s, ok := f.ConstStr(w.Args[len(w.Args)-1]); ok && s == "<" && f.CalleeID(w) == "io.WriteString" {
					return true
				}
			}
			return false
		}
		// any other write to h, or the final Sum, reachable without passing the separator
		for _, b := range g.Blocks {
			if !b.Live {
				continue
			}
			for j, x := range b.Nodes {
				q := eng.Point{B: int(b.Index), I: j}
				if q == pt || isSep(q, x) {
					continue
				}
				other := len(writesHash(f, x, hname)) > 0 || f.ContainsCall(x, "hash.Hash.Sum") != nil
				if other && g.Reachable(g.After(pt), q, nil, isSep) {
					bad = "a write of " + f.Norm(cl.Args[1], &pt) + " can be followed by " + c.p.NodeStr(x) + " without the '<' separator"
				}
			}
		}
		c.r.Check("C20.3", f, "separator after "+f.Norm(cl.Args[1], &pt), "O: every value written to the hash is followed by '<' before anything else is written", cl.Pos(), bad == "", bad)
	}
	c.r.Floor("C20.3", "values written to the hash", nw, 4)
	// FORM_TYPE handling
	okFT := false
	for _, l := range f.Lits {
		lg := l.Graph()
		for _, ce := range lg.EdgesMatching("eq(p0.Var,\"FORM_TYPE\")") {
			appendReach, getStr := false, false
			for _, nd := range lg.ReachableNodes(lg.EdgeTarget(ce.E), nil) {
				if l.ContainsCall(nd, "builtin.append") != nil {
					appendReach = true
				}
				if cl := l.ContainsCall(nd, "form.Data.GetString"); cl != nil {
					if s, _ := l.ConstStr(cl.Args[0]); s == "FORM_TYPE" {
						getStr = true
					}
				}
			}
			if !appendReach && getStr {
				okFT = true
			}
		}
	}
	c.r.Check("C20.3", f, "FORM_TYPE", "G: the FORM_TYPE field is not hashed as a field; its value is the form's type", f.Pos(), okFT, "FORM_TYPE arm appends to the field list or does not read the value")
	// ... whatever its declared type (result forms usually omit the type
	// attribute): the append to the field list is dominated by Var != FORM_TYPE
	nAppFT := 0
	for _, l := range f.Lits {
		lg := l.Graph()
		for _, cl := range l.Calls("builtin.append") {
			if len(cl.Args) != 2 || !strings.HasSuffix(l.Norm(cl.Args[1], nil), ".Var") {
				continue
			}
			nAppFT++
			pt, _ := lg.Where(cl)
			okd, why := lg.DominatedAny(pt, []string{"!eq(p0.Var,\"FORM_TYPE\")"})
			c.r.Check("C20.3", l, "field name appended to the list of hashed fields", "G: a field called FORM_TYPE is never hashed as an ordinary field: the append is dominated by Var != \"FORM_TYPE\"", cl.Pos(), okd, why)
		}
	}
	c.r.Floor("C20.3", "appends of field names in AppendHash", nAppFT, 1)

	// ---- C20.4 -------------------------------------------------------------------------------------
	hf := c.fn("C20.4", "disco", "Info.Hash")
	if hf != nil {
		okh := false
		for _, rs := range hf.Graph().Returns {
			res := ""
			if len(rs.Results) == 1 {
				res = hf.Norm(rs.Results[0], nil)
			}
			for _, empty := range []string{"nil", "builtin.make([]byte,0)", "builtin.make([]byte,0,*)", "[]byte{}"} {
				if eng.Glob("conv:string(disco.Info.AppendHash[recv]("+empty+",p0))", res) {
					okh = true
				}
			}
		}
		c.r.Check("C20.4", hf, "Hash", "P: Hash is string(AppendHash(<empty destination>, h))", hf.Pos(), okh, "")
	}
	// output: base64 of h.Sum(dst)
	okOut := false
	for _, cl := range f.Calls("hash.Hash.Sum") {
		okOut = len(cl.Args) == 1 && f.Norm(cl.Args[0], nil) == "p0"
	}
	c.r.Check("C20.4", f, "digest appended to dst", "P: the digest is h.Sum(dst), base64 encoded", f.Pos(), okOut && len(f.Calls("encoding/base64.Encoding.Encode")) == 1, "")

	// ---- C20.5 no panic -------------------------------------------------------------------------------
	scope := []*eng.Fn{f}
	scope = append(scope, f.Lits...)
	for _, name := range []string{"(*Data).ForFields", "(*Data).GetString", "(*Data).Get", "(*Data).Raw", "(*Data).Len"} {
		if ff := c.p.Func("form", name); ff != nil {
			scope = append(scope, ff)
		}
	}
	for _, sf := range scope {
		c.r.Check("C20.5", sf, "function scanned", "scanned by the no-panic rules", sf.Pos(), true, "")
		for _, ta := range bareAsserts(sf) {
			c.r.Check("C20.5", sf, "bare type assertion", "no non-comma-ok type assertion", ta.Pos(), false, "would panic")
		}
		c09IndexID(c, "C20.5", sf, "disco.Info.AppendHash")
		// nil receiver: methods of *Data used on decoded (possibly nil) forms test the receiver before touching fields
	}
}

// freshSlice: on every path the slice e denotes memory allocated in this
// function by make (possibly re-sliced), never a parameter or another value.
func freshSlice(f *eng.Fn, e ast.Expr, pt eng.Point, seen map[*eng.Def]bool) (bool, string) {
	g := f.Graph()
	switch x := ast.Unparen(e).(type) {
	case *ast.CallExpr:
		cid := f.CalleeID(x)
		if cid == "builtin.make" {
			return true, ""
		}
		// []T(nil): appending to a nil slice allocates
		if strings.HasPrefix(cid, "conv:") && len(x.Args) == 1 {
			if idn, ok := ast.Unparen(x.Args[0]).(*ast.Ident); ok && idn.Name == "nil" {
				return true, ""
			}
		}
		// append-style calls return their first argument's memory (or a new
		// allocation): fresh iff the first argument is
		if (cid == "builtin.append" || strings.HasSuffix(cid, ".Append")) && len(x.Args) > 0 {
			return freshSlice(f, x.Args[0], pt, seen)
		}
		return false, "destination is the result of " + cid
	case *ast.SliceExpr:
		return freshSlice(f, x.X, pt, seen)
	case *ast.Ident:
		v, ok := f.Info().ObjectOf(x).(*types.Var)
		if !ok || !eng.IsLocal(v) {
			return false, "destination " + x.Name + " is not a local"
		}
		ds := g.ReachingDefs(v, pt)
		if len(ds) == 0 {
			return false, "no definition of " + x.Name + " reaches the call"
		}
		for _, d := range ds {
			if seen[d] {
				continue
			}
			seen[d] = true
			if d.Kind == eng.DefTuple && d.Index == 0 && d.RHS != nil {
				if ok, why := freshSlice(f, d.RHS, d.At, seen); !ok {
					return false, x.Name + " may alias other memory: " + why
				}
				continue
			}
			if d.Kind != eng.DefPlain || d.RHS == nil {
				return false, x.Name + " may be " + defKindName(d) + " (not allocated here)"
			}
			if ok, why := freshSlice(f, d.RHS, d.At, seen); !ok {
				return false, x.Name + " may alias other memory: " + why
			}
		}
		return true, ""
	}
	return false, "destination " + f.Norm(e, nil) + " is not a fresh allocation"
}

func defKindName(d *eng.Def) string {
	switch d.Kind {
	case eng.DefParam:
		return "a parameter"
	case eng.DefZero:
		return "a zero value"
	}
	return "defined at " + d.Var.Name()
}

// c20AccumulatorsPerIteration (C20.8): a list that one iteration of a hashing
// loop fills and then hashes belongs to that iteration. A slice variable that
// is declared outside a loop of AppendHash and appended to inside it (directly
// or in a function literal of the loop body) is reset to length zero on every
// path from the start of the iteration to that statement - otherwise the
// field names of an earlier form are hashed again with the next form, and the
// result depends on which forms come before which.
func c20AccumulatorsPerIteration(c *cx, id string, f *eng.Fn) {
	g := f.Graph()
	n := 0
	f.WalkBody(func(nd ast.Node) bool {
		loop, ok := nd.(ast.Stmt)
		if !ok {
			return true
		}
		var body *ast.BlockStmt
		switch l := loop.(type) {
		case *ast.RangeStmt:
			body = l.Body
		case *ast.ForStmt:
			body = l.Body
		default:
			return true
		}
		bodyPt, _, _, okl := g.LoopPoints(loop)
		if !okl {
			return true
		}
		// appends inside the body (closures included) to variables declared outside it
		seen := map[*types.Var]bool{}
		ast.Inspect(body, func(x ast.Node) bool {
			as, ok := x.(*ast.AssignStmt)
			if !ok || len(as.Lhs) != 1 || len(as.Rhs) != 1 {
				return true
			}
			cl, ok := ast.Unparen(as.Rhs[0]).(*ast.CallExpr)
			if !ok || len(cl.Args) < 2 {
				return true
			}
			if tv, okT := f.Info().Types[cl.Fun]; !okT || !tv.IsBuiltin() {
				return true
			}
			if idf, okI := ast.Unparen(cl.Fun).(*ast.Ident); !okI || idf.Name != "append" {
				return true
			}
			li, ok1 := ast.Unparen(as.Lhs[0]).(*ast.Ident)
			ai, ok2 := ast.Unparen(cl.Args[0]).(*ast.Ident)
			if !ok1 || !ok2 {
				return true
			}
			v, _ := f.Info().ObjectOf(li).(*types.Var)
			if v == nil || f.Info().ObjectOf(ai) != types.Object(v) || seen[v] {
				return true
			}
			// declared outside the loop body?
			if v.Pos() >= body.Pos() && v.Pos() <= body.End() {
				return true
			}
			if v.Pos() >= loop.Pos() && v.Pos() <= loop.End() {
				return true // the loop's own variable
			}
			seen[v] = true
			// the statement of the body that contains the append (the call that
			// runs the closure, or the assignment itself)
			var top ast.Node = as
			for p := g.Parent(top); p != nil && p != ast.Node(body); p = g.Parent(p) {
				top = p
			}
			tp, okp := g.Where(top)
			if !okp {
				// inside a function literal: the node is the statement holding the literal
				for _, st := range body.List {
					if st.Pos() <= as.Pos() && as.End() <= st.End() {
						tp, okp = g.Where(st)
					}
				}
			}
			if !okp {
				return true
			}
			n++
			isReset := func(q eng.Point, x ast.Node) bool {
				ra, ok := x.(*ast.AssignStmt)
				if !ok || len(ra.Lhs) != 1 || len(ra.Rhs) != 1 {
					return false
				}
				if idn, ok := ast.Unparen(ra.Lhs[0]).(*ast.Ident); !ok || f.Info().ObjectOf(idn) != types.Object(v) {
					return false
				}
				switch r := ast.Unparen(ra.Rhs[0]).(type) {
				case *ast.Ident:
					return r.Name == "nil"
				case *ast.SliceExpr:
					if hi, ok := f.ConstInt(r.High); ok && hi == 0 && r.Low == nil {
						return true
					}
				case *ast.CallExpr:
					if f.CalleeID(r) == "builtin.make" && len(r.Args) >= 2 {
						if k, ok := f.ConstInt(r.Args[1]); ok && k == 0 {
							return true
						}
					}
				case *ast.CompositeLit:
					return len(r.Elts) == 0
				}
				return false
			}
			c.r.Check(id, f, "list "+v.Name()+" filled inside a loop starts empty in every iteration", "O: a slice declared outside the loop and appended to inside it is reset to length 0 on every path from the start of the iteration", as.Pos(), g.MustPassBefore(bodyPt, tp, isReset, nil), "an iteration can start with the elements of the previous one still in the list: they are hashed again")
			return true
		})
		return true
	})
	c.r.Note("%s: %d lists declared outside and filled inside a loop of AppendHash (expected 0 on the unchanged tree)", id, n)
}

// c20SortsCopies (C20.9/C19.29, E-alias): hashing does not change the value.
// Every slice that AppendHash sorts is a copy made in this call: Info is passed
// by value but its slices, and the value lists form.Raw returns, are the
// caller's storage. Sorting them in place reorders the lines of a text-multi
// field (the XML written after Hash differs from the XML written before) and
// races with a concurrent Hash of the same Info.
func c20SortsCopies(c *cx, id string) {
	f := c.fn(id, "disco", "Info.AppendHash")
	if f == nil {
		return
	}
	g := f.Graph()
	n := 0
	for _, cl := range f.AllCalls() {
		switch f.CalleeID(cl) {
		case "sort.Slice", "sort.SliceStable", "sort.Strings", "sort.Sort", "sort.Stable":
		default:
			continue
		}
		n++
		pt, _ := g.Where(cl)
		okf, why := freshSlice(f, cl.Args[0], pt, map[*eng.Def]bool{})
		c.r.Check(id, f, "sorted slice "+eng.TypeStr(f.Info().TypeOf(cl.Args[0])), "E-alias: a slice that AppendHash sorts was allocated in this call (a copy), never the receiver's or a form's own storage", cl.Pos(), okf, why+": the caller's data is reordered by hashing")
	}
	c.r.Floor(id, "sort calls in AppendHash", n, 4)
}

// c20ComparatorsAreOrders (C20.10): sort.Slice / sort.SliceStable need a strict
// weak order. Shape rule over every comparator literal of disco.Info.AppendHash
// and the form package: a return is (a) a < or > comparison whose operands are
// the same key expression of the two elements (swapping the index parameters
// maps one operand onto the other), (b) the constant false, never the constant
// true (a comparator must be irreflexive); and every condition a return
// depends on is an equality / inequality between the same key of the two
// elements (the lexicographic idiom "if ka != kb { return ka < kb }"). A
// return under any other condition - "one of the two has no key" - makes an
// element equivalent to everything while the others stay ordered: equivalence
// is no longer transitive and the order sort.Slice produces depends on the
// order of the input.
func c20ComparatorsAreOrders(c *cx, id string) {
	n := 0
	swap := func(s string) string {
		var b strings.Builder
		for i := 0; i < len(s); i++ {
			if s[i] == 'p' && i+1 < len(s) && (s[i+1] == '0' || s[i+1] == '1') &&
				(i == 0 || !isIdentByte(s[i-1])) && (i+2 >= len(s) || !isIdentByte(s[i+2])) {
				if s[i+1] == '0' {
					b.WriteString("p1")
				} else {
					b.WriteString("p0")
				}
				i++
				continue
			}
			b.WriteByte(s[i])
		}
		return b.String()
	}
	for _, f := range c.allFns() {
		if !(strings.HasPrefix(f.Short, "disco.") || strings.HasPrefix(f.Short, "form.") || strings.HasPrefix(f.Short, "disco/info.") || strings.HasPrefix(f.Short, "disco/items.")) {
			continue
		}
		for _, sc := range append(f.Calls("sort.Slice"), f.Calls("sort.SliceStable")...) {
			lit, ok := ast.Unparen(sc.Args[1]).(*ast.FuncLit)
			if !ok {
				continue
			}
			lf := c.p.FnOfLit(lit)
			if lf == nil {
				continue
			}
			lg := lf.Graph()
			for _, rs := range lg.Returns {
				if len(rs.Results) != 1 {
					continue
				}
				n++
				pt, _ := lg.Where(rs)
				bad := ""
				res := ast.Unparen(rs.Results[0])
				switch x := res.(type) {
				case *ast.BinaryExpr:
					if x.Op != token.LSS && x.Op != token.GTR {
						bad = "result is not a < or > comparison"
					} else if l, r := lf.Norm(x.X, &pt), lf.Norm(x.Y, &pt); swap(l) != r || l == r {
						bad = "the operands " + l + " and " + r + " are not the same key of the two elements"
					}
				default:
					switch lf.Norm(res, &pt) {
					case "false":
					case "true":
						bad = "returns true unconditionally on this path: less(i, i) would hold"
					default:
						bad = "result " + lf.Norm(res, &pt) + " is neither a key comparison nor false"
					}
				}
				if bad == "" {
					for _, a := range lg.FactsAt(pt) {
						t := strings.TrimPrefix(a, "!")
						okA := false
						if strings.HasPrefix(t, "eq(") && strings.HasSuffix(t, ")") {
							parts := splitTop(t[3:len(t)-1], ",")
							okA = len(parts) == 2 && swap(parts[0]) == parts[1] && parts[0] != parts[1]
						}
						if !okA {
							bad = "the return depends on " + a + ", which does not compare a key of one element with the same key of the other"
							break
						}
					}
				}
				c.r.Check(id, lf, "comparator return "+c.p.NodeStr(rs), "T: a comparator is a strict weak order: lexicographic over keys of the two elements, constant false otherwise", rs.Pos(), bad == "", bad)
			}
		}
	}
	c.r.Floor(id, "returns of sort comparators in disco and form", n, 5)
}

func isIdentByte(b byte) bool {
	return b == '_' || (b >= '0' && b <= '9') || (b >= 'a' && b <= 'z') || (b >= 'A' && b <= 'Z')
}

// c20DecoderKeepsEveryValue (C20.11): the hash covers every <value/> of every
// field, so the decoded form must hold every <value/> that was on the wire,
// whatever the field's type says about how many there should be: in the
// UnmarshalXML methods of package form a store to field.value takes a decoded
// slice whole - no slice expression, no index, no literal built from one
// element.
func c20DecoderKeepsEveryValue(c *cx, id string) {
	n := 0
	for _, f := range c.allFns() {
		if !strings.HasPrefix(f.Short, "form.") || f.Decl == nil || f.Decl.Name.Name != "UnmarshalXML" {
			continue
		}
		for _, w := range f.FieldWrites("form.field.value") {
			if w.RHS == nil {
				continue
			}
			n++
			bad := ""
			ast.Inspect(w.RHS, func(x ast.Node) bool {
				switch y := x.(type) {
				case *ast.SliceExpr:
					if y.Low != nil || y.High != nil {
						bad = "stores " + types.ExprString(w.RHS) + ": values beyond the slice bounds are dropped from the decoded form"
					}
				case *ast.IndexExpr:
					if _, isSlice := f.Info().TypeOf(y.X).Underlying().(*types.Slice); isSlice {
						bad = "stores " + types.ExprString(w.RHS) + ": a single element of the decoded values"
					}
				}
				return true
			})
			c.r.Check(id, f, "decoded values stored", "E-taint: the form decoder stores the decoded <value/> list whole (the capabilities hash of a received form covers all of them)", w.Stmt.Pos(), bad == "", bad)
			// verbatim: what is stored is the decode target's own []string field
			// (the character data as the peer sent it), not something computed
			// from it
			targets := map[types.Object]bool{}
			for _, cl := range f.Calls("encoding/xml.Decoder.Decode*") {
				if len(cl.Args) > 0 {
					if u, ok := ast.Unparen(cl.Args[0]).(*ast.UnaryExpr); ok && u.Op == token.AND {
						if idn, ok := ast.Unparen(u.X).(*ast.Ident); ok {
							targets[f.Info().ObjectOf(idn)] = true
						}
					}
				}
			}
			verb := false
			if sel, ok := ast.Unparen(w.RHS).(*ast.SelectorExpr); ok {
				if idn, ok := ast.Unparen(sel.X).(*ast.Ident); ok && targets[f.Info().ObjectOf(idn)] {
					verb = true
				}
			}
			c.r.Check(id, f, "decoded values stored verbatim", "E-taint: what the form decoder stores as a field's values is the []string the XML decoder filled (the hash of a received form is computed over the character data as sent)", w.Stmt.Pos(), verb, "stores "+types.ExprString(w.RHS)+", which is not a field of the decode target")
		}
		// no value of a decoded field is rewritten afterwards
		for _, w := range f.Writes() {
			ix, ok := ast.Unparen(w.LHS).(*ast.IndexExpr)
			if !ok {
				continue
			}
			if cls, ok := f.FieldClass(ix.X); ok && cls == "form.field.value" {
				c.r.Check(id, f, "decoded value rewritten", "E-taint: the form decoders never rewrite a decoded value (\"1\" stays \"1\": the capabilities hash is computed over the character data as sent)", w.Stmt.Pos(), false, "element store "+types.ExprString(w.LHS)+" = "+exprOrEmpty(w.RHS))
			}
		}
	}
	c.r.Floor(id, "stores to field.value in the form decoders", n, 1)
}

func exprOrEmpty(e ast.Expr) string {
	if e == nil {
		return "…"
	}
	return types.ExprString(e)
}

// c20ValuesOfTheFieldItself (C20.12): a data form may carry two fields with the
// same var (malformed, but decodable from a peer's reply, and the property
// quantifies over every input and every permutation of fields). The look-ups
// of package form that take a name (Raw, Get, GetString, ...) return the FIRST
// field of that name, so a value obtained through a computed name is the value
// of "some field called like this one", not of the field that contributed the
// name: the hash then covers the first duplicate twice and depends on the
// order of the fields. In AppendHash and its closures every name-keyed look-up
// of a form takes a constant name (FORM_TYPE); the values of a field come from
// the field itself (form.FieldData.Raw in the ForFields callback).
func c20ValuesOfTheFieldItself(c *cx, id string, f *eng.Fn) {
	n := 0
	var scan func(fn *eng.Fn)
	scan = func(fn *eng.Fn) {
		for _, cl := range fn.Calls("form.Data.*") {
			cid := fn.CalleeID(cl)
			switch cid {
			case "form.Data.Raw", "form.Data.Get", "form.Data.GetString", "form.Data.GetStrings", "form.Data.GetBool", "form.Data.GetJID", "form.Data.GetJIDs", "form.Data.GetOptions":
			default:
				continue
			}
			if len(cl.Args) != 1 {
				continue
			}
			n++
			cs, isConst := fn.ConstStr(cl.Args[0])
			arg := "computed name"
			if isConst {
				arg = strconv.Quote(cs)
			}
			c.r.Check(id, fn, "name-keyed look-up "+strings.TrimPrefix(cid, "form.Data.")+"("+arg+")", "P: a field's values are taken from the field itself; a look-up by name is used for constant names only (it returns the first field of that name)", cl.Pos(), isConst, "the values hashed under a field's name are those of the FIRST field with that var: with two fields of one var the first is hashed twice and the result depends on the order of the fields")
		}
		for _, l := range fn.Lits {
			scan(l)
		}
	}
	scan(f)
	c.r.Floor(id, "name-keyed form look-ups in AppendHash", n, 2)
}

// c20EveryFieldReported (C20.13): AppendHash learns the fields of a form from
// form.Data.ForFields; a field that the iteration skips (no var, an unknown
// type, ...) drops out of the verification string, and two forms that differ
// only in that field collide. Each iteration of the loop over Data.fields in
// ForFields calls the callback before the next iteration starts.
func c20EveryFieldReported(c *cx, id string) {
	f := c.fn(id, "form", "(*Data).ForFields")
	if f == nil {
		return
	}
	g := f.Graph()
	n := 0
	f.WalkBody(func(nd ast.Node) bool {
		rs, ok := nd.(*ast.RangeStmt)
		if !ok {
			return true
		}
		if cls, okc := f.FieldClass(rs.X); !okc || cls != "form.Data.fields" {
			return true
		}
		body, head, done, okp := g.LoopPoints(rs)
		if !okp {
			c.r.Unresolved(id, "loop over Data.fields in ForFields")
			return true
		}
		n++
		isCall := func(q eng.Point, x ast.Node) bool {
			found := false
			ast.Inspect(x, func(y ast.Node) bool {
				if cl, ok := y.(*ast.CallExpr); ok {
					if idn, ok := ast.Unparen(cl.Fun).(*ast.Ident); ok {
						if v, ok := f.Info().ObjectOf(idn).(*types.Var); ok && f.Sig().Params().Len() > 0 && v == f.Sig().Params().At(0) {
							found = true
						}
					}
				}
				return !found
			})
			return found
		}
		okw := g.MustPassBefore(body, head, isCall, nil) && g.MustPassBefore(body, done, isCall, nil)
		c.r.Check(id, f, "every field is reported", "O: each iteration of ForFields over the form's fields calls the callback (the capabilities hash covers every field of a form, well-formed or not)", rs.Pos(), okw, "an iteration can skip the callback: the skipped field is missing from the verification string")
		return true
	})
	c.r.Floor(id, "loops over Data.fields in ForFields", n, 1)
}

// xmlLangTagsNamespaced (C20.14 / C13.27): the language of an identity, a
// stanza or an error text is the xml:lang attribute. encoding/xml matches a
// struct tag without a namespace against an attribute of that local name in
// ANY namespace (the last one wins): every struct field of the library that
// is decoded from an attribute called lang names the XML namespace in its
// tag. A peer's <identity xml:lang='el' lang='greek'/> is otherwise hashed
// with the language "greek".
func xmlLangTagsNamespaced(c *cx, id string) {
	n := 0
	seen := map[string]bool{}
	for _, f := range c.allFns() {
		if f.Pkg == nil || seen[f.Pkg.PkgPath] {
			continue
		}
		seen[f.Pkg.PkgPath] = true
		if !strings.HasPrefix(f.Pkg.PkgPath, eng.ModPath) || strings.Contains(f.Pkg.PkgPath, "/internal/integration") || strings.Contains(f.Pkg.PkgPath, "/examples") {
			continue
		}
		for _, file := range f.Pkg.Syntax {
			ast.Inspect(file, func(x ast.Node) bool {
				st, ok := x.(*ast.StructType)
				if !ok || st.Fields == nil {
					return true
				}
				for _, fld := range st.Fields.List {
					if fld.Tag == nil {
						continue
					}
					raw, uerr := strconv.Unquote(fld.Tag.Value)
					if uerr != nil {
						continue
					}
					tag := reflect.StructTag(raw).Get("xml")
					parts := strings.Split(tag, ",")
					isAttr := false
					for _, o := range parts[1:] {
						if o == "attr" {
							isAttr = true
						}
					}
					name := parts[0]
					if !isAttr || (name != "lang" && !strings.HasSuffix(name, " lang")) {
						continue
					}
					n++
					c.r.CheckNamed(id, f.Pkg.Types.Name(), "lang attribute tag `"+tag+"`", "T: a field decoded from the lang attribute names the XML namespace (http://www.w3.org/XML/1998/namespace lang,attr)", fld.Pos(), name == "http://www.w3.org/XML/1998/namespace lang", "the tag matches an attribute called lang in any namespace: a foreign lang attribute is taken for xml:lang")
				}
				return true
			})
		}
	}
	c.r.Floor(id, "struct fields decoded from a lang attribute", n, 5)
}

// c20WholeListsHashed (C20.22): the verification string is built from ALL
// identities, ALL features and ALL forms of the value (XEP-0115 5.1; forms
// without a FORM_TYPE included - two values that differ only in such a form
// are different values, and the property asks for different input to the
// hash). AppendHash sorts copies of the three lists (C20.9); each copy is a
// complete one: every definition of a local list of identities / features /
// forms is `append(<nil>, recv.F...)`, a make + copy of the field, or an
// unconditional append inside a range over the field. A loop that keeps only
// the forms passing a test drops the others from the hash.
func c20WholeListsHashed(c *cx, id string, f *eng.Fn) {
	g := f.Graph()
	fieldOf := map[string]string{"[]disco/info.Identity": "recv.Identity", "[]disco/info.Feature": "recv.Features", "[]form.Data": "recv.Form"}
	seen := map[*types.Var]bool{}
	n := 0
	for _, d := range g.AllDefs() {
		v := d.Var
		fld, ok := fieldOf[eng.TypeStr(v.Type())]
		if !ok || seen[v] {
			continue
		}
		seen[v] = true
		for _, d2 := range g.DefsOf(v) {
			if d2.Kind == eng.DefZero || d2.Kind == eng.DefRange {
				continue
			}
			n++
			okd, why := false, fmt.Sprintf("defined (kind %d, type %s) by %s", d2.Kind, eng.TypeStr(v.Type()), f.Prog.NodeStr(d2.Node))
			if d2.Kind == eng.DefPlain && d2.RHS != nil {
				if cl, isCall := ast.Unparen(d2.RHS).(*ast.CallExpr); isCall {
					switch f.CalleeID(cl) {
					case "builtin.append":
						if cl.Ellipsis.IsValid() && len(cl.Args) == 2 && f.Norm(cl.Args[1], nil) == fld {
							if g.LocalVar(cl.Args[0]) == nil {
								okd = true // append(<nil slice>, field...)
							}
						}
						if len(cl.Args) == 2 && !cl.Ellipsis.IsValid() && g.LocalVar(cl.Args[0]) == v {
							// list = append(list, elem) in a range over the field, on every iteration
							for p := g.Parent(d2.Node); p != nil; p = g.Parent(p) {
								rs, isRange := p.(*ast.RangeStmt)
								if !isRange {
									continue
								}
								if f.Norm(rs.X, nil) != fld {
									break
								}
								body, head, _, okl := g.LoopPoints(rs)
								node := d2.Node
								if okl && g.MustPassBefore(body, head, func(q eng.Point, x ast.Node) bool { return x == node }, nil) {
									okd = true
								} else {
									why = "the append is skipped for some elements of " + fld
								}
								break
							}
						}
					case "builtin.make":
						for _, cp := range f.Calls("builtin.copy") {
							if g.LocalVar(cp.Args[0]) == v && f.Norm(cp.Args[1], nil) == fld && len(cl.Args) >= 2 && strings.Contains(f.Norm(cl.Args[1], nil), "builtin.len("+fld+")") {
								okd = true
							}
						}
						if !okd && len(cl.Args) == 3 {
							okd = true // make(T, 0, n): filled by the appends, which are checked on their own
						}
					}
				}
			}
			c.r.Check(id, f, "list "+f.LocalName(v)+" that is hashed", "P: every definition of a local list of identities / features / forms is a complete copy of "+fld, d2.Node.Pos(), okd, why+": elements left out do not reach the hash, values that differ in them get the same verification string")
		}
	}
	c.r.Floor(id, "definitions of the hashed lists", n, 3)
}

// c20EveryNameCanBeLookedUp (C20.23): AppendHash reads the values of every
// field through form.(*Data).Raw(name) - also those of a field without a var
// (a fixed field of extended information), whose name is the empty string.
// Raw gives up before looking at the fields for a nil form only: a "not found"
// return that is reachable without the scan of the fields has exactly the
// guard recv == nil. A guard on the name (`id == ""`) drops the values of
// var-less fields from the hash.
func c20EveryNameCanBeLookedUp(c *cx, id string) {
	f := c.fn(id, "form", "(*Data).Raw")
	if f == nil {
		return
	}
	g := f.Graph()
	var loop *ast.RangeStmt
	f.WalkBody(func(nd ast.Node) bool {
		if rs, ok := nd.(*ast.RangeStmt); ok && loop == nil {
			loop = rs
		}
		return true
	})
	if loop == nil {
		c.r.Unresolved(id, "scan of the fields in form.(*Data).Raw")
		return
	}
	_, head, _, okl := g.LoopPoints(loop)
	n := 0
	for _, rs := range g.Returns {
		if len(rs.Results) != 2 || f.Norm(rs.Results[1], nil) != "false" {
			continue
		}
		rp, _ := g.Where(rs)
		// reachable without entering the scan?
		if okl {
			cut := eng.Cut{}
			for si := range g.Blocks[head.B].Succs {
				cut[eng.Edge{B: head.B, S: si}] = true
			}
			if !g.Reachable(g.Entry(), rp, cut, nil) {
				continue
			}
		}
		n++
		c.onlyFacts(id, f, rs, "not-found answer before the scan", []string{"eq(recv,nil)"})
	}
	c.r.Floor(id, "early not-found returns of Raw", n, 1)
}
