package rules

import (
	"go/ast"
	"go/types"
	"strings"

	"golang.org/x/tools/go/types/typeutil"

	"verif/checker/eng"
)

// valueUsedAfterError (E-err, callee contract): where a caller goes on to
// index, slice or dereference the value result of a (value, error) call on a
// path on which the call's error was not established to be nil (the caller
// tolerates some errors), the callee must hand back a usable value with every
// error: none of its returns with a possibly non-nil error has a literal nil
// value. The dual of the usual "if err != nil { return }" discipline.
func valueUsedAfterError(c *cx, id string, scope []*eng.Fn) int {
	n := 0
	for _, f := range scope {
		if f.Body == nil {
			continue
		}
		g := f.Graph()
		f.WalkBody(func(nd ast.Node) bool {
			as, ok := nd.(*ast.AssignStmt)
			if !ok || len(as.Lhs) != 2 || len(as.Rhs) != 1 {
				return true
			}
			call, ok := ast.Unparen(as.Rhs[0]).(*ast.CallExpr)
			if !ok {
				return true
			}
			vid, ok1 := as.Lhs[0].(*ast.Ident)
			eid, ok2 := as.Lhs[1].(*ast.Ident)
			if !ok1 || !ok2 || vid.Name == "_" || eid.Name == "_" {
				return true
			}
			if t := f.Info().TypeOf(eid); t == nil || eng.TypeStr(t) != "error" {
				return true
			}
			v, _ := f.Info().ObjectOf(vid).(*types.Var)
			if v == nil {
				return true
			}
			switch v.Type().Underlying().(type) {
			case *types.Slice, *types.Pointer:
			default:
				return true
			}
			var callee *eng.Fn
			if fo, ok := typeutil.Callee(f.Info(), call).(*types.Func); ok {
				callee = c.p.FnOf(fo.Origin())
			}
			if callee == nil || callee.Body == nil {
				return true
			}
			cpt, okp := g.Where(as)
			if !okp {
				return true
			}
			cn := f.Norm(call, &cpt)
			// hard uses of v reached from the call with this definition of v
			var hard ast.Node
			f.WalkBody(func(x ast.Node) bool {
				if hard != nil {
					return false
				}
				var base ast.Expr
				switch u := x.(type) {
				case *ast.IndexExpr:
					base = u.X
				case *ast.SliceExpr:
					if u.Low == nil && u.High == nil {
						return true
					}
					if u.Low != nil && u.High == nil {
						if cv := f.ConstVal(u.Low); cv != nil && cv.ExactString() == "0" {
							return true
						}
					}
					base = u.X
				case *ast.StarExpr:
					base = u.X
				case *ast.SelectorExpr:
					if _, isPtr := v.Type().Underlying().(*types.Pointer); isPtr {
						if s := f.Info().Selections[u]; s != nil && s.Kind() == types.FieldVal {
							base = u.X
						}
					}
				}
				if base == nil {
					return true
				}
				bid, ok := ast.Unparen(base).(*ast.Ident)
				if !ok || f.Info().ObjectOf(bid) != v {
					return true
				}
				upt, oku := g.Where(x)
				if !oku {
					return true
				}
				// this definition reaches the use
				reaches := false
				for _, d := range g.ReachingDefs(v, upt) {
					if d.Node == ast.Node(as) {
						reaches = true
					}
				}
				if !reaches {
					return true
				}
				if g.DominatedFrom(g.After(cpt), upt, []string{"eq(" + cn + "#1,nil)"}) {
					return true
				}
				// a nil test of v itself protects the use as well
				if g.DominatedFrom(g.After(cpt), upt, []string{"!eq(" + cn + "#0,nil)", "lt(*,builtin.len(" + cn + "#0))"}) {
					return true
				}
				hard = x
				return false
			})
			if hard == nil {
				return true
			}
			n++
			cg := callee.Graph()
			bad := ""
			for _, rs := range cg.Returns {
				if cg.RetKindOf(rs) == eng.RetSuccess || len(rs.Results) != 2 {
					continue
				}
				if idn, ok := ast.Unparen(rs.Results[0]).(*ast.Ident); ok && idn.Name == "nil" && callee.Info().Uses[idn] == types.Universe.Lookup("nil") {
					bad = "return at " + c.p.Pos(rs.Pos()) + " hands back nil with its error"
				}
			}
			c.r.Check(id, f, "value of "+strings.TrimPrefix(callee.Short, "")+" used although its error may be non-nil", "E-err: the caller uses the value ("+c.p.NodeStr(hard)+" at "+c.p.Pos(hard.Pos())+") on a path where the call's error was not established nil, so every error return of the callee carries a usable value (no literal nil)", as.Pos(), bad == "", bad)
			return true
		})
	}
	return n
}

// handlerCallbacksChecked (sibling cross-check): the library's handler types
// carry their application callbacks in exported func-typed fields; most of
// them (blocklist, xtime, bin, muc, receipts) test the field before calling it,
// so the zero value is a usable handler. A Handle* method that calls such a
// field of its receiver without a dominating non-nil test panics on the first
// matching stanza a peer sends to a handler registered without the callback.
func handlerCallbacksChecked(c *cx, id string) int {
	n := 0
	for _, f := range c.allFns() {
		if f.Obj == nil || f.Body == nil || f.Sig() == nil || f.Sig().Recv() == nil {
			continue
		}
		switch f.Obj.Name() {
		case "HandleXMPP", "HandleIQ", "HandleMessage", "HandlePresence":
		default:
			continue
		}
		g := f.Graph()
		for _, cl := range f.AllCalls() {
			sel, ok := ast.Unparen(cl.Fun).(*ast.SelectorExpr)
			if !ok {
				continue
			}
			s := f.Info().Selections[sel]
			if s == nil || s.Kind() != types.FieldVal || !s.Obj().Exported() {
				continue
			}
			if _, isFunc := s.Obj().Type().Underlying().(*types.Signature); !isFunc {
				continue
			}
			x := f.Norm(sel.X, nil)
			if x != "recv" && !strings.HasPrefix(x, "recv.") {
				continue
			}
			// only calls in the method's own body (not in nested literals)
			pt, okp := g.Where(cl)
			if !okp {
				continue
			}
			n++
			fld := f.Norm(sel, nil)
			okd, why := g.DominatedAny(pt, []string{"!eq(" + fld + ",nil)"})
			c.r.Check(id, f, "callback "+fld+" called", "G: a callback field of the handler is called only after a non-nil test (the zero value of the handler must not panic on peer input)", cl.Pos(), okd, why)
		}
	}
	return n
}

// staleCopies (E-stale): in f, a local that was computed from a selector path
// (tok.Name.Space != "") is not used after that path was assigned: the copy
// describes the value before the write. Meant for functions that complete a
// value in place and then decide on it (the stanza encoder fills in the
// namespace of a top-level stanza and afterwards decides, from the name,
// whether an xmlns attribute is a duplicate).
func staleCopies(c *cx, id string, f *eng.Fn) int {
	g := f.Graph()
	n := 0
	type pathWrite struct {
		path string
		pt   eng.Point
		pos  ast.Node
	}
	var writes []pathWrite
	for _, w := range f.Writes() {
		if _, isSel := ast.Unparen(w.LHS).(*ast.SelectorExpr); !isSel {
			continue
		}
		pt, ok := g.Where(w.Stmt)
		if !ok {
			continue
		}
		writes = append(writes, pathWrite{f.Prog.NodeStr(w.LHS), pt, w.Stmt})
	}
	for _, d := range g.AllDefs() {
		if d.Kind != eng.DefPlain || d.RHS == nil || !eng.IsLocal(d.Var) {
			continue
		}
		// selector paths read by the definition
		paths := map[string]bool{}
		ast.Inspect(d.RHS, func(x ast.Node) bool {
			if _, isCall := x.(*ast.CallExpr); isCall {
				return false // a call result is a snapshot by intent
			}
			if sel, ok := x.(*ast.SelectorExpr); ok {
				paths[f.Prog.NodeStr(sel)] = true
			}
			return true
		})
		if len(paths) == 0 {
			continue
		}
		for _, w := range writes {
			if !paths[w.path] || !g.Reachable(g.After(d.At), w.pt, nil, nil) {
				continue
			}
			// a use of the local after the write, with this definition still reaching
			var use ast.Node
			f.WalkBody(func(x ast.Node) bool {
				if use != nil {
					return false
				}
				idn, ok := x.(*ast.Ident)
				if !ok || f.Info().Uses[idn] != types.Object(d.Var) {
					return true
				}
				up, oku := g.Where(idn)
				if !oku || !g.Reachable(g.After(w.pt), up, nil, nil) {
					return true
				}
				// putting the saved value back into the same path is what a
				// snapshot is for
				if as, ok := g.Parent(idn).(*ast.AssignStmt); ok && len(as.Lhs) == 1 && len(as.Rhs) == 1 && as.Rhs[0] == ast.Expr(idn) && f.Prog.NodeStr(as.Lhs[0]) == w.path {
					return true
				}
				for _, rd := range g.ReachingDefs(d.Var, up) {
					if rd == d {
						use = idn
					}
				}
				return true
			})
			n++
			c.r.Check(id, f, "copy "+f.LocalName(d.Var)+" of "+w.path, "E-stale: a local computed from a selector path is not used after that path was assigned", d.Node.Pos(), use == nil, "computed at "+c.p.Pos(d.Node.Pos())+" from "+w.path+", which is assigned at "+c.p.Pos(w.pos.Pos())+"; the copy is still used afterwards (it describes the value before the write)")
		}
	}
	return n
}

// optionalPointerFields (E-nil, belief rule): an exported pointer field of a
// payload type is optional by construction: the zero value leaves it nil and
// so does the type's decoder when the element or attribute is missing or
// empty. A method of the type that calls a method on the field or selects
// through it must have established that it is not nil (the decoder's output is
// the input of these methods: Slot.Put after a <put url=""/>).
func optionalPointerFields(c *cx, id string, in func(f *eng.Fn) bool) int {
	n := 0
	for _, f := range c.allFns() {
		if f.Body == nil || f.Obj == nil || !in(f) || f.Sig() == nil || f.Sig().Recv() == nil {
			continue
		}
		// values of unexported types are built by the package itself
		if tn := recvTypeName(f); tn == nil || !tn.Exported() {
			continue
		}
		g := f.Graph()
		f.WalkBody(func(nd ast.Node) bool {
			sel, ok := nd.(*ast.SelectorExpr)
			if !ok {
				return true
			}
			inner, ok := ast.Unparen(sel.X).(*ast.SelectorExpr)
			if !ok {
				return true
			}
			x := f.Norm(inner, nil)
			if !strings.HasPrefix(x, "recv.") || strings.Count(x, ".") != 1 {
				return true
			}
			s := f.Info().Selections[inner]
			if s == nil || s.Kind() != types.FieldVal || !s.Obj().Exported() {
				return true
			}
			pt, isPtr := s.Obj().Type().(*types.Pointer)
			if !isPtr {
				return true
			}
			// a method with a pointer receiver, or a field of the pointee: needs a non-nil pointer
			s2 := f.Info().Selections[sel]
			if s2 == nil {
				return true
			}
			if s2.Kind() == types.MethodVal {
				// methods documented nil-safe are rare; a value-receiver method derefs, a
				// pointer-receiver method of a foreign type is assumed to deref as well
				_ = pt
			}
			p, okp := g.Where(sel)
			if !okp {
				return true
			}
			n++
			okd, why := g.DominatedAny(p, []string{"!eq(" + x + ",nil)"})
			c.r.Check(id, f, "use through optional pointer "+x, "E-nil: a method call or field access through an exported pointer field of the receiver is dominated by a non-nil test of that field", sel.Pos(), okd, why)
			return true
		})
	}
	return n
}

// nilReaderSinks (E-nil, interprocedural): the token reader handed to
// xml.NewTokenDecoder / xmlstream.Copy is dereferenced at once (Decode and
// Copy call its Token method). Where that reader is the result of a function
// of this library, or is read from a field of a type of this library, no
// producer yields a definite nil: no `return nil` for that result, no write
// of nil to that field - unless the use is dominated by a non-nil test. This is
// the contract bookmarks.(*Iter).Next relies on for pubsub.(*Iter).Item.
func nilReaderSinks(c *cx, id string) {
	var mayNil func(f *eng.Fn, e ast.Expr, pt eng.Point, depth int) string
	var retNil func(callee *eng.Fn, k, depth int) string
	var calleeOf func(f *eng.Fn, call *ast.CallExpr) *eng.Fn
	retNil = func(callee *eng.Fn, k, depth int) string {
		if callee == nil || callee.Body == nil || depth > 3 {
			return ""
		}
		cg := callee.Graph()
		for _, rs := range cg.Returns {
			if c.p.Enclosing(rs.Pos()) != callee {
				continue
			}
			op, _ := callee.RetOperand(rs, k)
			if op == nil {
				continue
			}
			// (nil, err): the caller's error test is the guard (that the value
			// is not used after a failed call is rule C09.15)
			if cg.RetKindOf(rs) == eng.RetError {
				continue
			}
			rp, _ := cg.Where(rs)
			// `return g(...)` of a function with several results: result k of g
			if len(rs.Results) == 1 && callee.Sig().Results().Len() > 1 {
				if tc, isCall := ast.Unparen(rs.Results[0]).(*ast.CallExpr); isCall {
					if w := retNil(calleeOf(callee, tc), k, depth+1); w != "" {
						return w
					}
					continue
				}
			}
			if w := mayNil(callee, op, rp, depth+1); w != "" {
				return callee.Short + " returns it at " + c.p.Pos(rs.Pos()) + ": " + w
			}
		}
		return ""
	}
	calleeOf = func(f *eng.Fn, call *ast.CallExpr) *eng.Fn {
		if fo, ok := typeutil.Callee(f.Info(), call).(*types.Func); ok {
			return c.p.FnOf(fo.Origin())
		}
		return nil
	}
	mayNil = func(f *eng.Fn, e ast.Expr, pt eng.Point, depth int) string {
		e = ast.Unparen(e)
		g := f.Graph()
		switch g.NilnessOf(e, pt) {
		case -1:
			return "nil"
		case +1:
			return ""
		}
		switch x := e.(type) {
		case *ast.Ident:
			v, _ := f.Info().Uses[x].(*types.Var)
			if v == nil || !eng.IsLocal(v) {
				return ""
			}
			for _, d := range g.ReachingDefs(v, pt) {
				if d.RHS == nil || (d.Kind != eng.DefPlain && d.Kind != eng.DefTuple) {
					continue
				}
				if call, ok := ast.Unparen(d.RHS).(*ast.CallExpr); ok && d.Kind == eng.DefTuple {
					if w := retNil(calleeOf(f, call), d.Index, depth); w != "" {
						return w
					}
					continue
				}
				if w := mayNil(f, d.RHS, d.At, depth+1); w != "" {
					return w
				}
			}
		case *ast.CallExpr:
			return retNil(calleeOf(f, x), 0, depth)
		case *ast.SelectorExpr:
			cls, ok := f.FieldClass(x)
			if !ok || depth > 3 {
				return ""
			}
			for _, wf := range c.allFns() {
				for _, w := range wf.FieldWrites(cls) {
					if w.RHS == nil {
						continue
					}
					wp, _ := wf.Graph().Where(w.Stmt)
					if wf.Graph().NilnessOf(w.RHS, wp) == -1 {
						return "nil is written to " + cls + " at " + c.p.Pos(w.Stmt.Pos())
					}
				}
			}
		}
		return ""
	}
	n := 0
	for _, f := range c.allFns() {
		for _, call := range f.AllCalls() {
			ai := -1
			switch f.CalleeID(call) {
			case "encoding/xml.NewTokenDecoder":
				ai = 0
			case "mellium.im/xmlstream.Copy":
				ai = 1
			}
			if ai < 0 || ai >= len(call.Args) {
				continue
			}
			pt, ok := f.Graph().Where(call)
			if !ok {
				continue
			}
			n++
			why := mayNil(f, call.Args[ai], pt, 0)
			c.r.Check(id, f, "reader handed to "+f.CalleeID(call)+" ["+f.Norm(call.Args[ai], &pt)+"]", "E-nil: no producer of the token reader (result of a library function, field of a library type) yields a definite nil without a non-nil test before the use", call.Pos(), why == "", why)
		}
	}
	c.r.Floor(id, "token readers handed to NewTokenDecoder/Copy", n, 20)
	// the same for method calls on an interface value that is a result of a
	// library function with several results (resp, payload, err := Execute()):
	// a callee that starts to return (resp, nil, nil) for some reply makes the
	// unchanged caller's payload.Close() a nil dereference
	nm := 0
	for _, f := range c.allFns() {
		if f.Body == nil {
			continue
		}
		g := f.Graph()
		for _, call := range f.AllCalls() {
			sel, ok := ast.Unparen(call.Fun).(*ast.SelectorExpr)
			if !ok {
				continue
			}
			idn, ok := ast.Unparen(sel.X).(*ast.Ident)
			if !ok {
				continue
			}
			v, _ := f.Info().Uses[idn].(*types.Var)
			if v == nil || !eng.IsLocal(v) {
				continue
			}
			if _, isIface := v.Type().Underlying().(*types.Interface); !isIface {
				continue
			}
			pt, okp := g.Where(call)
			if !okp {
				continue
			}
			ds := g.ReachingDefs(v, pt)
			fromLib := false
			for _, d := range ds {
				if d.Kind == eng.DefTuple && d.RHS != nil {
					if dc, isCall := ast.Unparen(d.RHS).(*ast.CallExpr); isCall && calleeOf(f, dc) != nil && d.Index > 0 {
						fromLib = true
					}
				}
			}
			if !fromLib {
				continue
			}
			nm++
			why := mayNil(f, idn, pt, 0)
			c.r.Check(id, f, "method "+sel.Sel.Name+" called on result "+v.Name()+" of a library function", "E-nil: an interface-typed result of a library function is used only if no return of that function yields a definite nil for it together with a possibly nil error (or a non-nil test dominates the use)", call.Pos(), why == "", why)
		}
	}
	c.r.Note("%s: %d method calls on interface results of library functions examined", id, nm)
}

// zeroValueMapStores (E-nil, maps): a store into a map-typed field of the
// receiver, in an exported method of an exported type, works on the zero
// value too: every path to the store passes a make-assignment of that field
// or is dominated by a non-nil test of it. Scope: exported payload types, i.e.
// types with an UnmarshalXML method, whose zero value is the decode target.
func zeroValueMapStores(c *cx, id string, in func(f *eng.Fn) bool) int {
	n := 0
	for _, f := range c.allFns() {
		if f.Body == nil || f.Obj == nil || !in(f) || f.Sig() == nil || f.Sig().Recv() == nil || !f.Obj.Exported() {
			continue
		}
		tn := recvTypeName(f)
		if tn == nil || !tn.Exported() {
			continue
		}
		// payload types: the zero value is what a decoder starts from (var v T;
		// xml.Unmarshal(data, &v)), so it is a value of the exported API. Service
		// types with a constructor and no decoder (handlers) are not covered.
		if types.NewMethodSet(types.NewPointer(tn.Type())).Lookup(nil, "UnmarshalXML") == nil {
			continue
		}
		g := f.Graph()
		for _, mu := range f.MapUpdates() {
			if mu.Delete {
				continue // delete on a nil map is a no-op
			}
			x := f.Norm(mu.Map, nil)
			if !strings.HasPrefix(x, "recv.") || strings.Count(x, ".") != 1 {
				continue
			}
			n++
			pt, _ := g.Where(mu.Node)
			isMake := func(q eng.Point, nd ast.Node) bool {
				as, ok := nd.(*ast.AssignStmt)
				if !ok || len(as.Lhs) != 1 || len(as.Rhs) != 1 || f.Norm(as.Lhs[0], nil) != x {
					return false
				}
				switch r := ast.Unparen(as.Rhs[0]).(type) {
				case *ast.CallExpr:
					return f.CalleeID(r) == "builtin.make"
				case *ast.CompositeLit:
					return true
				}
				return false
			}
			okd, _ := g.Dominated(pt, "!eq("+x+",nil)")
			// the usual idiom: if m == nil { m = make(...) } ; m[k] = v
			cut := g.CutFor("eq(" + x + ",nil)")
			okm := g.MustPassBefore(g.Entry(), pt, isMake, cut)
			c.r.Check(id, f, "store into map field "+x, "E-nil: a store into a map field of the receiver is preceded, when the field is nil, by its allocation (the zero value of an exported type is usable)", mu.Node.Pos(), okd || okm, "on the zero value the field is nil: the store panics (assignment to entry in nil map)")
		}
	}
	return n
}
