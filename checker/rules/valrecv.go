package rules

import (
	"go/ast"
	"go/types"

	"verif/checker/eng"
)

// valueReceiverWritesKept: a method that stores into a field of its receiver
// keeps the store only when the receiver is a pointer. With a value receiver
// the store lands in the callee's copy; it is "kept" only if the copy itself
// is used afterwards (returned, passed on, or the field read again on a later
// path). A store to the copy that nothing reads is a lost state update: the
// typestate of a closer ("closed once") silently resets on every call.
//
// Scope: methods of module types that have a Close method (handles).
// Returns the number of receiver-field stores examined (both receiver kinds).
func valueReceiverWritesKept(c *cx, id string) int {
	n := 0
	for _, f := range c.allFns() {
		if f.Decl == nil || f.Obj == nil || f.Pkg.PkgPath[:len(eng.ModPath)] != eng.ModPath {
			continue
		}
		rv := f.Sig().Recv()
		if rv == nil {
			continue
		}
		rt := rv.Type()
		isPtr := false
		if p, ok := rt.(*types.Pointer); ok {
			rt, isPtr = p.Elem(), true
		}
		named, ok := rt.(*types.Named)
		if !ok {
			continue
		}
		if _, ok := named.Underlying().(*types.Struct); !ok {
			continue
		}
		hasClose := false
		for i := 0; i < named.NumMethods(); i++ {
			if named.Method(i).Name() == "Close" {
				hasClose = true
			}
		}
		if !hasClose {
			continue
		}
		g := f.Graph()
		// direct field of the receiver: recv.f with no pointer hop
		directField := func(e ast.Expr) (string, bool) {
			sel, ok := ast.Unparen(e).(*ast.SelectorExpr)
			if !ok {
				return "", false
			}
			// walk down to the root
			first := sel
			for {
				x, ok := ast.Unparen(first.X).(*ast.SelectorExpr)
				if !ok {
					break
				}
				if _, isP := f.Info().TypeOf(x).Underlying().(*types.Pointer); isP {
					return "", false
				}
				first = x
			}
			idn, ok := ast.Unparen(first.X).(*ast.Ident)
			if !ok || f.Info().ObjectOf(idn) != types.Object(rv) {
				return "", false
			}
			return first.Sel.Name, true
		}
		check := func(stmt ast.Node, lhs ast.Expr) {
			fld, ok := directField(lhs)
			if !ok {
				return
			}
			n++
			if isPtr {
				return
			}
			pt, okp := g.Where(stmt)
			kept := false
			if okp {
				for _, nd := range g.ReachableNodes(eng.Point{B: pt.B, I: pt.I + 1}, nil) {
					ast.Inspect(nd, func(x ast.Node) bool {
						if kept {
							return false
						}
						switch x := x.(type) {
						case *ast.FuncLit:
							// a closure capturing the copy may read it
						case *ast.SelectorExpr:
							if idn, isId := ast.Unparen(x.X).(*ast.Ident); isId && f.Info().ObjectOf(idn) == types.Object(rv) {
								if x.Sel.Name == fld {
									kept = true
								}
								return false
							}
						case *ast.Ident:
							if f.Info().ObjectOf(x) == types.Object(rv) {
								kept = true
							}
						}
						return true
					})
					if kept {
						break
					}
				}
			}
			c.r.Check(id, f, "store to field "+fld+" of the receiver", "E-eff: a state update made by a method of a handle reaches the handle (pointer receiver), or the updated copy is used afterwards", stmt.Pos(), kept, "the receiver is a value: the store to "+fld+" lands in a copy that nothing reads afterwards, so the handle never changes state")
		}
		f.WalkBody(func(nd ast.Node) bool {
			switch s := nd.(type) {
			case *ast.FuncLit:
				return false
			case *ast.AssignStmt:
				for _, l := range s.Lhs {
					check(s, l)
				}
			case *ast.IncDecStmt:
				check(s, s.X)
			}
			return true
		})
	}
	return n
}
