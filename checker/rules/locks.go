package rules

import (
	"go/ast"
	"go/token"
	"sort"
	"strings"

	"verif/checker/eng"
)

// fieldUse is one occurrence of a struct field in a function.
type fieldUse struct {
	fn    *eng.Fn
	expr  ast.Expr
	write bool
}

// fieldUses finds every occurrence of the field class cls in the in-scope
// functions (reads and writes).
func fieldUses(c *cx, cls string) []fieldUse {
	var out []fieldUse
	for _, f := range c.allFns() {
		lhs := map[ast.Expr]bool{}
		f.WalkBody(func(n ast.Node) bool {
			switch s := n.(type) {
			case *ast.AssignStmt:
				for _, l := range s.Lhs {
					lhs[ast.Unparen(l)] = true
				}
			case *ast.IncDecStmt:
				lhs[ast.Unparen(s.X)] = true
			}
			return true
		})
		f.WalkBody(func(n ast.Node) bool {
			sel, ok := n.(*ast.SelectorExpr)
			if !ok {
				return true
			}
			if k, ok := f.FieldClass(sel); ok && k == cls {
				out = append(out, fieldUse{f, sel, lhs[sel]})
				return false
			}
			return true
		})
	}
	return out
}

// lockEntry: functions analysed with locks held on entry (requires-lock
// summaries and typestate of the lock-owning closer types); each entry is
// justified by a separate obligation (call-site locksets / constructor shape).
var lockEntry = map[string]eng.LockSet{
	"xmpp.(*Session).closeSession":        {"xmpp.Session.out": 'W', "xmpp.Session.stateMutex": 'W'},
	"xmpp.(*lockWriteCloser).EncodeToken": {"xmpp.Session.out": 'W'},
	"xmpp.(*lockWriteCloser).Flush":       {"xmpp.Session.out": 'W'},
	"xmpp.(*lockWriteCloser).Close":       {"xmpp.Session.out": 'W'},
	"xmpp.(*lockReadCloser).Token":        {"xmpp.Session.in": 'W'},
	"xmpp.(*lockReadCloser).Close":        {"xmpp.Session.in": 'W'},
}

// lockDiscipline checks rule L(field class, lock class) over every use outside
// the exempt functions. readOK: reads need only shared mode.
func lockDiscipline(c *cx, id, field, lock string, exempt map[string]string, floor int) {
	n := 0
	for _, u := range fieldUses(c, field) {
		if why, ok := exempt[u.fn.Short]; ok {
			_ = why
			continue
		}
		n++
		li := u.fn.Graph().Locks(lockEntry[u.fn.Short])
		ls, ok := li.AtNode(u.expr)
		held := ok && ls.Has(lock, u.write)
		kind := "read"
		if u.write {
			kind = "write"
		}
		c.r.Check(id, u.fn, kind+" of "+field, "L: "+field+" is accessed with "+lock+" held ("+map[bool]string{true: "exclusive", false: "shared or exclusive"}[u.write]+")", u.expr.Pos(), held, "lockset at the access is "+ls.String())
	}
	c.r.Floor(id, "accesses of "+field, n, floor)
}

// requiresLocks checks the call sites of a requires-lock function.
func requiresLocks(c *cx, id string, callee string) {
	want, ok := lockEntry[callee]
	if !ok {
		return
	}
	n := 0
	for _, f := range c.allFns() {
		for _, cl := range f.AllCalls() {
			fo := f.Prog.FnOf(calleeFunc(f, cl))
			if fo == nil || fo.Short != callee {
				continue
			}
			n++
			ls, _ := f.Graph().Locks(lockEntry[f.Short]).AtNode(cl)
			var missing []string
			for k, m := range want {
				if !ls.Has(k, m == 'W') {
					missing = append(missing, k)
				}
			}
			sort.Strings(missing)
			c.r.Check(id, f, "call of "+callee, "L: callers hold the locks the callee requires on entry", cl.Pos(), len(missing) == 0, "missing "+strings.Join(missing, ",")+"; lockset "+ls.String())
		}
	}
	c.r.Floor(id, "call sites of "+callee, n, 1)
}

// lockPairing: in every function that acquires a lock directly, the release is
// deferred or reached on every path to every return (acquire wrappers excepted).
func lockPairing(c *cx, id string, classes []string, wrappers map[string]bool) {
	n := 0
	for _, f := range c.allFns() {
		g := f.Graph()
		for _, cl := range f.AllCalls() {
			op, cls, _ := f.LockOp(cl)
			if op <= 0 {
				continue
			}
			okc := classes == nil // nil: every lock class
			for _, k := range classes {
				if k == cls {
					okc = true
				}
			}
			if !okc {
				continue
			}
			if _, isDefer := g.Parent(cl).(*ast.DeferStmt); isDefer {
				continue
			}
			n++
			if wrappers[f.Short] {
				c.r.Check(id, f, "acquire of "+cls+" (wrapper)", "O: acquire wrapper: the lock is handed to the returned closer (typestate checked separately)", cl.Pos(), true, "")
				continue
			}
			pt, _ := g.Where(cl)
			bad := ""
			// A deferred release counts from the point where the defer statement
			// runs: a return between the acquire and the defer leaks the lock.
			isRel := func(q eng.Point, nd ast.Node) bool {
				found := false
				ast.Inspect(nd, func(x ast.Node) bool {
					if _, lit := x.(*ast.FuncLit); lit {
						if _, isDefer := g.Parent(x).(*ast.CallExpr); !isDefer {
							return false
						}
					}
					if cc, ok := x.(*ast.CallExpr); ok {
						if op2, cls2, _ := f.LockOp(cc); op2 < 0 && cls2 == cls {
							found = true
						}
					}
					return !found
				})
				return found
			}
			// a release deferred before the acquire covers every return after it
			isDeferRel := func(q eng.Point, nd ast.Node) bool {
				_, d := nd.(*ast.DeferStmt)
				return d && isRel(q, nd)
			}
			if g.DeferredUnlocks()[cls] && !g.Reachable(g.Entry(), pt, nil, isDeferRel) {
				c.r.Check(id, f, "acquire of "+cls, "O: the release is deferred before the acquire", cl.Pos(), true, "")
				continue
			}
			for _, rs := range g.Returns {
				rp, _ := g.Where(rs)
				if g.Reachable(g.After(pt), rp, nil, isRel) {
					bad = "return at " + c.p.Pos(rs.Pos()) + " reachable with " + cls + " still held"
				}
			}
			for _, ex := range g.Exits() {
				if bad == "" && g.Reachable(g.After(pt), ex, nil, isRel) {
					bad = "the end of the function is reachable with " + cls + " still held"
				}
			}
			c.r.Check(id, f, "acquire of "+cls, "O: every path from the acquire to a return releases the lock", cl.Pos(), bad == "", bad)
		}
	}
	c.r.Floor(id, "direct lock acquisitions", n, 1)
}

var _ = token.NoPos

// lockOrder (E-lock, order): for every acquisition of a mutex class B at a
// point where the must-lockset already holds a class A (A != B), record the
// edge A -> B (acquisitions through acquire-wrappers such as TokenWriter
// count). The order graph over all functions of the library must be acyclic:
// two goroutines that take A and B in opposite orders can deadlock (Close
// while a handler reply is being flushed).
func lockOrder(c *cx, id string) {
	type edge struct{ a, b string }
	where := map[edge]string{}
	fnOf := map[edge]*eng.Fn{}
	posOf := map[edge]ast.Node{}
	acq, _ := c.p.LockWrappers()
	// the negotiation functions run one at a time on the goroutine that builds
	// the session, before the session is handed to the application: their
	// relative lock order cannot meet another goroutine's
	neg := map[*eng.Fn]bool{}
	for _, f := range negSet(c, id) {
		// the closer types and the session's own methods are used by the
		// negotiation AND at serve time by the application's goroutines
		if strings.HasPrefix(f.Short, "xmpp.(*lockReadCloser).") || strings.HasPrefix(f.Short, "xmpp.(*lockWriteCloser).") {
			continue
		}
		neg[f] = true
	}
	for _, f := range c.allFns() {
		if f.Body == nil || neg[f] {
			continue
		}
		g := f.Graph()
		li := g.Locks(nil)
		for _, cl := range f.AllCalls() {
			var cls string
			if op, k, _ := f.LockOp(cl); op > 0 {
				cls = k
			} else if w, ok := acq[f.CalleeID(cl)]; ok {
				cls = w[0]
			}
			if cls == "" {
				continue
			}
			ls, ok := li.AtNode(cl)
			if !ok {
				continue
			}
			// the methods of the closer types run with the session lock their
			// constructor took (typestate, C05.2): lockReadCloser holds the
			// input lock, lockWriteCloser the output lock
			switch {
			case strings.HasPrefix(f.Short, "xmpp.(*lockReadCloser)."):
				ls = ls.With("xmpp.Session.in")
			case strings.HasPrefix(f.Short, "xmpp.(*lockWriteCloser)."):
				ls = ls.With("xmpp.Session.out")
			}
			for held := range ls {
				if held == cls {
					continue
				}
				e := edge{held, cls}
				if _, seen := where[e]; !seen {
					where[e] = f.Short + " (" + c.p.Pos(cl.Pos()) + ")"
					fnOf[e] = f
					posOf[e] = cl
				}
			}
		}
	}
	// locks a function may take itself or through the repository functions it
	// calls (static callees, fixpoint): a call made while a class is held adds
	// the order edges held -> taken-by-the-callee, and a callee that takes a
	// class the caller holds exclusively is a self-deadlock (sync.Mutex is not
	// reentrant): sendError calling Close with the output lock held never returns
	may := map[*eng.Fn]map[string]bool{}
	for _, f := range c.allFns() {
		if f.Body == nil {
			continue
		}
		m := map[string]bool{}
		for _, cl := range f.AllCalls() {
			if op, k, _ := f.LockOp(cl); op > 0 {
				m[k] = true
			} else if w, ok := acq[f.CalleeID(cl)]; ok {
				m[w[0]] = true
			}
		}
		may[f] = m
	}
	for changed := true; changed; {
		changed = false
		for _, f := range c.allFns() {
			if f.Body == nil {
				continue
			}
			for _, cl := range f.AllCalls() {
				callee := c.p.FnOf(calleeFunc(f, cl))
				if callee == nil || callee == f {
					continue
				}
				for k := range may[callee] {
					if !may[f][k] {
						may[f][k] = true
						changed = true
					}
				}
			}
		}
	}
	nre := 0
	for _, f := range c.allFns() {
		if f.Body == nil || neg[f] {
			continue
		}
		li := f.Graph().Locks(nil)
		for _, cl := range f.AllCalls() {
			callee := c.p.FnOf(calleeFunc(f, cl))
			if callee == nil || callee == f {
				continue
			}
			if _, isGo := f.Graph().Parent(cl).(*ast.GoStmt); isGo {
				continue // runs on another goroutine
			}
			if _, isDefer := f.Graph().Parent(cl).(*ast.DeferStmt); isDefer {
				continue // judged at the exit, where the lockset is the deferred one
			}
			ls, ok := li.AtNode(cl)
			if !ok {
				continue
			}
			for held, mode := range ls {
				if may[callee][held] {
					nre++
					// a callee that is an acquire-wrapper for this class is the acquisition itself
					if w, isW := acq[f.CalleeID(cl)]; isW && w[0] == held {
						continue
					}
					c.r.Check(id, f, "call of "+f.CalleeID(cl)+" with "+held+" held", "E-lock: a function that takes a mutex class is not called while that class is held (sync.Mutex is not reentrant)", cl.Pos(), mode != 'W', held+" is held exclusively here and "+f.CalleeID(cl)+" (or a function it calls) takes it again: the call never returns")
					continue
				}
				for k := range may[callee] {
					if k == held {
						continue
					}
					e := edge{held, k}
					if _, seen := where[e]; !seen {
						where[e] = f.Short + " (" + c.p.Pos(cl.Pos()) + ", through " + f.CalleeID(cl) + ")"
						fnOf[e] = f
						posOf[e] = cl
					}
				}
			}
		}
	}
	_ = nre
	var es []edge
	for e := range where {
		es = append(es, e)
	}
	sort.Slice(es, func(i, j int) bool { return es[i].a+es[i].b < es[j].a+es[j].b })
	// cycles: for each edge a->b, is a reachable from b?
	adj := map[string][]string{}
	for _, e := range es {
		adj[e.a] = append(adj[e.a], e.b)
	}
	reach := func(from, to string) bool {
		seen := map[string]bool{}
		stack := []string{from}
		for len(stack) > 0 {
			x := stack[len(stack)-1]
			stack = stack[:len(stack)-1]
			if x == to {
				return true
			}
			if seen[x] {
				continue
			}
			seen[x] = true
			stack = append(stack, adj[x]...)
		}
		return false
	}
	for _, e := range es {
		cyc := reach(e.b, e.a)
		why := ""
		if cyc {
			why = "the opposite order is taken elsewhere (a path " + e.b + " -> ... -> " + e.a + " exists in the order graph): two goroutines can deadlock"
		}
		c.r.Check(id, fnOf[e], "lock order "+e.a+" -> "+e.b, "E-lock: the lock-order graph (class held -> class acquired, over all functions) is acyclic", posOf[e].Pos(), !cyc, why)
	}
	c.r.Floor(id, "lock-order edges", len(es), 2)
}
