package rules

import (
	"go/ast"
	"go/token"
	"go/types"
	"sort"
	"strings"

	"verif/checker/eng"
)

// noNilNil: a constructor-like function with results (T, error), T a pointer
// or an interface, tells its caller either "here is the value" or "this
// failed". The callers in this module (and every user) rely on it: after
// `if err != nil { return }` the value is used. A path that returns the
// zero value of T together with a nil error reports a success that is none -
// the session constructors would go on with a nil connection (F130:
// websocket.(*Dialer).Dial returned (nil, nil) when every discovered
// endpoint was skipped).
//
// Decided per function on its control-flow graph: from every definition of a
// returned local T-variable that leaves it nil (its declaration, `= nil`, a
// named result's initial value) no path reaches a `return v, e` on which
// neither v nor e is known to be non-nil. "Known non-nil" along a path: an
// edge of a nil test of the variable (also as one side of a && / ||), or an
// assignment of an expression that cannot be nil (fmt.Errorf, errors.New, a
// composite literal, &x, a sentinel variable). Any other assignment to v
// (a call result, for instance) ends the path: what a callee returns is the
// callee's obligation. Returns the number of return statements examined.
func noNilNil(c *cx, id string, inScope func(f *eng.Fn) bool) int {
	n := 0
	for _, f := range c.allFns() {
		sig := f.Sig()
		if sig == nil || sig.Results().Len() != 2 || f.ErrResultIndex() != 1 {
			continue
		}
		switch sig.Results().At(0).Type().Underlying().(type) {
		case *types.Pointer, *types.Interface:
		default:
			continue
		}
		if !inScope(f) {
			continue
		}
		n += nilNilFn(c, id, f)
	}
	return n
}

// nnClause: at least one of the variables is non-nil.
type nnClause []*types.Var

func (cl nnClause) key() string {
	var s []string
	for _, v := range cl {
		s = append(s, v.Name()+"@"+itoaPos(v.Pos()))
	}
	sort.Strings(s)
	return strings.Join(s, "|")
}

func itoaPos(p token.Pos) string {
	var b [20]byte
	i := len(b)
	x := int(p)
	if x == 0 {
		return "0"
	}
	for x > 0 {
		i--
		b[i] = byte('0' + x%10)
		x /= 10
	}
	return string(b[i:])
}

// nnFacts returns the clauses that hold when cond evaluates to pol (nil: no
// knowledge; ok=false: the edge is infeasible is never claimed).
func nnFacts(g *eng.Graph, cond ast.Expr, pol bool) []nnClause {
	cond = ast.Unparen(cond)
	switch x := cond.(type) {
	case *ast.UnaryExpr:
		if x.Op == token.NOT {
			return nnFacts(g, x.X, !pol)
		}
	case *ast.BinaryExpr:
		switch x.Op {
		case token.EQL, token.NEQ:
			var v *types.Var
			if isNilIdent(g.Fn, x.Y) {
				v = g.LocalVar(x.X)
			} else if isNilIdent(g.Fn, x.X) {
				v = g.LocalVar(x.Y)
			}
			if v != nil && (x.Op == token.NEQ) == pol {
				return []nnClause{{v}}
			}
		case token.LAND, token.LOR:
			conj := (x.Op == token.LAND) == pol
			a, b := nnFacts(g, x.X, pol), nnFacts(g, x.Y, pol)
			if conj {
				return append(a, b...)
			}
			// one of the two sides holds: usable when each side yields one clause
			if len(a) == 1 && len(b) == 1 {
				return []nnClause{append(append(nnClause{}, a[0]...), b[0]...)}
			}
		}
	}
	return nil
}

func isNilIdent(f *eng.Fn, e ast.Expr) bool {
	id, ok := ast.Unparen(e).(*ast.Ident)
	if !ok || id.Name != "nil" {
		return false
	}
	_, isNil := f.Info().Uses[id].(*types.Nil)
	return isNil
}

func nilNilFn(c *cx, id string, f *eng.Fn) int {
	g := f.Graph()
	type retSite struct {
		rs   *ast.ReturnStmt
		v, e *types.Var // e == nil: the error operand is the constant nil
	}
	var sites []retSite
	sig := f.Sig()
	for _, rs := range g.Returns {
		var v, e *types.Var
		switch len(rs.Results) {
		case 0:
			v, e = sig.Results().At(0), sig.Results().At(1)
			if v.Name() == "" || v.Name() == "_" {
				continue
			}
		case 2:
			v = g.LocalVar(rs.Results[0])
			if v == nil {
				if isNilIdent(f, rs.Results[0]) && isNilIdent(f, rs.Results[1]) {
					c.r.Check(id, f, "return nil, nil", "P: a (T, error) constructor does not report success with a nil value", rs.Pos(), false, "the caller's `if err != nil` passes and the nil value is used")
				}
				continue
			}
			if isNilIdent(f, rs.Results[1]) {
				e = nil
			} else if e = g.LocalVar(rs.Results[1]); e == nil {
				pt, _ := g.Where(rs)
				if g.NilnessOf(rs.Results[1], pt) == 1 {
					continue
				}
				// an error expression that is neither a variable nor known
				// non-nil (a call): the value alone decides
			}
		default:
			continue
		}
		if g.AddrTaken(v) || (e != nil && g.AddrTaken(e)) {
			continue
		}
		sites = append(sites, retSite{rs, v, e})
	}
	if len(sites) == 0 {
		return 0
	}
	bad := map[*ast.ReturnStmt]string{}
	seenVar := map[*types.Var]bool{}
	for _, st := range sites {
		if seenVar[st.v] {
			continue
		}
		seenVar[st.v] = true
		v := st.v
		for _, d := range g.DefsOf(v) {
			isNil := d.Kind == eng.DefZero || (d.Kind == eng.DefPlain && d.RHS != nil && isNilIdent(f, d.RHS))
			if !isNil {
				continue
			}
			start := d.At
			if d.Kind != eng.DefZero || d.Node != ast.Node(f.Type) {
				start = g.After(d.At)
			}
			nilNilSearch(f, g, v, start, func(rs *ast.ReturnStmt, why string) {
				if _, dup := bad[rs]; !dup {
					bad[rs] = why
				}
			})
		}
	}
	for _, st := range sites {
		why, isBad := bad[st.rs]
		c.r.Check(id, f, "return of "+f.LocalName(st.v)+" with its error", "P: no path returns the nil value of a (T, error) constructor together with a nil error", st.rs.Pos(), !isBad, why)
	}
	return len(sites)
}

// nilNilSearch explores the paths from start on which v stays nil.
func nilNilSearch(f *eng.Fn, g *eng.Graph, v *types.Var, start eng.Point, report func(*ast.ReturnStmt, string)) {
	type state struct {
		b, i  int
		facts []nnClause
	}
	keyOf := func(s state) string {
		var ks []string
		for _, cl := range s.facts {
			ks = append(ks, cl.key())
		}
		sort.Strings(ks)
		return itoaPos(token.Pos(s.b)) + ":" + itoaPos(token.Pos(s.i)) + ":" + strings.Join(ks, ";")
	}
	kill := func(facts []nnClause, w *types.Var) []nnClause {
		var out []nnClause
		for _, cl := range facts {
			has := false
			for _, x := range cl {
				if x == w {
					has = true
				}
			}
			if !has {
				out = append(out, cl)
			}
		}
		return out
	}
	covers := func(facts []nnClause, allowed ...*types.Var) bool {
		for _, cl := range facts {
			all := true
			for _, x := range cl {
				in := false
				for _, a := range allowed {
					if a != nil && a == x {
						in = true
					}
				}
				if !in {
					all = false
				}
			}
			if all && len(cl) > 0 {
				return true
			}
		}
		return false
	}
	seen := map[string]bool{}
	work := []state{{start.B, start.I, nil}}
	steps := 0
	for len(work) > 0 {
		s := work[len(work)-1]
		work = work[:len(work)-1]
		if k := keyOf(s); seen[k] {
			continue
		} else {
			seen[k] = true
		}
		if steps++; steps > 20000 {
			return
		}
		b := g.Blocks[s.b]
		facts := s.facts
		stopped := false
		for i := s.i; i < len(b.Nodes) && !stopped; i++ {
			nd := b.Nodes[i]
			if rs, ok := nd.(*ast.ReturnStmt); ok {
				var rv, re *types.Var
				errConstNil := false
				switch len(rs.Results) {
				case 0:
					rv, re = f.Sig().Results().At(0), f.Sig().Results().At(1)
				case 2:
					rv = g.LocalVar(rs.Results[0])
					re = g.LocalVar(rs.Results[1])
					errConstNil = isNilIdent(f, rs.Results[1])
					if re == nil && !errConstNil {
						if g.NilnessOf(rs.Results[1], eng.Point{B: s.b, I: i}) == 1 {
							rv = nil
						}
					}
				}
				if rv == v && !covers(facts, v, re) {
					report(rs, "a path from the nil definition of "+f.LocalName(v)+" reaches this return with neither the value nor the error known to be non-nil: the caller sees success and a nil value")
				}
				stopped = true
				break
			}
			for _, d := range g.DefsAtNode(nd) {
				if d.Var == v {
					// nil again: the search from that definition covers it;
					// anything else: the value is the callee's obligation
					stopped = true
					break
				}
				facts = kill(facts, d.Var)
				if d.Kind == eng.DefPlain && d.RHS != nil && g.NilnessOf(d.RHS, d.At) == 1 {
					facts = append(append([]nnClause{}, facts...), nnClause{d.Var})
				}
			}
		}
		if stopped {
			continue
		}
		var cond ast.Expr
		if len(b.Succs) == 2 && len(b.Nodes) > 0 {
			if e, ok := b.Nodes[len(b.Nodes)-1].(ast.Expr); ok {
				if t := f.Info().TypeOf(e); t != nil {
					if bt, ok := t.Underlying().(*types.Basic); ok && bt.Info()&types.IsBoolean != 0 {
						cond = e
					}
				}
			}
		}
		if cond != nil {
			// a named condition (`c := v == nil && e == nil; if c {`) stands
			// for its expression when it was evaluated in this block and
			// nothing it mentions was assigned since
			if r := resolveBool(f, cond); r != cond {
				cond = nil
				if cv := g.LocalVar(ast.Unparen(b.Nodes[len(b.Nodes)-1].(ast.Expr))); cv != nil {
					if d := g.UniqueDef(cv, eng.Point{B: s.b, I: len(b.Nodes) - 1}); d != nil && d.At.B == s.b {
						clean := true
						for i := d.At.I + 1; i < len(b.Nodes)-1; i++ {
							if len(g.DefsAtNode(b.Nodes[i])) > 0 {
								clean = false
							}
						}
						if clean {
							cond = r
						}
					}
				}
			}
		}
		for si, succ := range b.Succs {
			nf := facts
			if cond != nil {
				if add := nnFacts(g, cond, si == 0); len(add) > 0 {
					nf = append(append([]nnClause{}, facts...), add...)
				}
			}
			work = append(work, state{int(succ.Index), 0, nf})
		}
	}
}
