package rules

import (
	"go/ast"
	"go/constant"
	"go/types"
	"sort"
	"strings"

	"verif/checker/eng"
)

// enumSwitchesComplete (C19.46): a method of an integer enumeration type of
// the module that switches over a value of that type and lists its members in
// case clauses - with nothing, or nothing but comments, in the default - lists
// all of them: the encoder of the default action of <actions/> has an arm for
// prev, next and complete; dropping one ("the missing attribute already means
// complete") writes nothing for a value the decoder of the same type tells
// apart.
//
// Returns the number of such switches examined.
func enumSwitchesComplete(c *cx, id string) int {
	n := 0
	for _, f := range c.allFns() {
		if f.Decl == nil || f.Decl.Recv == nil || f.Pkg == nil {
			continue
		}
		rt := f.Sig().Recv().Type()
		if p, ok := rt.(*types.Pointer); ok {
			rt = p.Elem()
		}
		nt, ok := rt.(*types.Named)
		if !ok {
			continue
		}
		if b, ok := nt.Underlying().(*types.Basic); !ok || b.Info()&types.IsInteger == 0 {
			continue
		}
		var members []*types.Const
		sc := f.Pkg.Types.Scope()
		for _, name := range sc.Names() {
			if k, ok := sc.Lookup(name).(*types.Const); ok && types.Identical(k.Type(), nt) && k.Val().Kind() == constant.Int {
				members = append(members, k)
			}
		}
		if len(members) < 2 {
			continue
		}
		f.WalkBody(func(nd ast.Node) bool {
			sw, ok := nd.(*ast.SwitchStmt)
			if !ok || sw.Tag == nil {
				return true
			}
			if t := f.Info().TypeOf(sw.Tag); t == nil || !types.Identical(t, nt) {
				return true
			}
			seen := map[*types.Const]bool{}
			emptyDefault := true
			for _, cl := range sw.Body.List {
				cc := cl.(*ast.CaseClause)
				if cc.List == nil {
					emptyDefault = len(cc.Body) == 0
					continue
				}
				for _, e := range cc.List {
					if idn, ok := ast.Unparen(e).(*ast.Ident); ok {
						if k, ok := f.Info().Uses[idn].(*types.Const); ok {
							seen[k] = true
						}
					}
				}
			}
			if len(seen) == 0 || !emptyDefault {
				return true
			}
			n++
			var missing []string
			for _, m := range members {
				if !seen[m] {
					// a member that is a mask of others (not a single iota step) is not an alternative
					missing = append(missing, m.Name())
				}
			}
			sort.Strings(missing)
			c.r.Check(id, f, "switch over "+eng.TypeStr(nt), "T: a switch of an enumeration's own method that lists members and does nothing by default lists every member", sw.Pos(), len(missing) == 0, "no arm for "+strings.Join(missing, ", "))
			return true
		})
	}
	return n
}
