package rules

import (
	"go/ast"
	"go/types"

	"verif/checker/eng"
)

// closedErrorNotClassified (C10.18): ErrOutputStreamClosed / ErrInputStreamClosed
// are what every transmit / receive entry point answers after Close. A
// function that tests an error against one of them does so in order to treat
// it differently - in practice to go on as if the write had happened. Only the
// serve loop may (after a local Close it has nobody to reply to and keeps
// reading until the peer closes too); in every other function of the module the
// two sentinels appear as return operands only.
func closedErrorNotClassified(c *cx, id string) {
	allowed := map[string]string{
		"xmpp.handleInputStream": "after a local Close the automatic reply and the flush have nowhere to go; Serve goes on reading until the peer closes its stream",
	}
	nRet, nTest := 0, 0
	for _, f := range c.allFns() {
		g := f.Graph()
		f.WalkBody(func(nd ast.Node) bool {
			idn, ok := nd.(*ast.Ident)
			if !ok {
				return true
			}
			v, ok := f.Info().Uses[idn].(*types.Var)
			if !ok || eng.IsLocal(v) || v.Pkg() == nil || v.Pkg().Path() != eng.ModPath {
				return true
			}
			if v.Name() != "ErrOutputStreamClosed" && v.Name() != "ErrInputStreamClosed" {
				return true
			}
			var user ast.Node = idn
			if sel, ok := g.Parent(idn).(*ast.SelectorExpr); ok {
				user = sel
			}
			if _, isRet := g.Parent(user).(*ast.ReturnStmt); isRet {
				nRet++
				return true
			}
			nTest++
			why, ok := allowed[f.Short]
			if p := f.Parent; !ok && p != nil {
				why, ok = allowed[p.Short]
			}
			reason := "the closed-stream error is told apart from other errors here: a transmit that did not happen is not reported to the caller"
			if ok {
				reason = why
			}
			c.r.Check(id, f, "use of "+v.Name()+" other than returning it", "K: only the serve loop classifies the closed-stream errors (table with reasons)", idn.Pos(), ok, reason)
			return true
		})
	}
	c.r.Floor(id, "returns of a closed-stream error", nRet, 5)
	c.r.Floor(id, "classifications of a closed-stream error in the serve loop", nTest, 2)
}
