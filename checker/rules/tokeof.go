package rules

import (
	"go/ast"
	"strings"

	"verif/checker/eng"
)

// lastTokenWithEOF (C19.49): an xml.TokenReader may hand out its last token
// TOGETHER with io.EOF (everything built with xmlstream.Wrap and
// stanza.*.Wrap does). A token transformer - a function with the Token
// signature that reads a token from an inner reader and then looks at what
// kind of token it is - gives up on a read error only where the error is not
// io.EOF or no token came with it: every return between the read and the
// inspection of the token that returns the read's error is dominated by
// err != io.EOF or tok == nil. `if err != nil { return tok, err }` passes the
// final end tag through unseen: receipts.Request adds no <request/> for such
// readers.
func lastTokenWithEOF(c *cx, id string) int {
	n := 0
	for _, f := range c.allFns() {
		sig := f.Sig()
		if sig == nil || sig.Params().Len() != 0 || sig.Results().Len() != 2 || eng.TypeStr(sig.Results().At(0).Type()) != "encoding/xml.Token" {
			continue
		}
		g := f.Graph()
		// the inspection: a type switch or type assertion on a token
		var inspections []ast.Node
		f.WalkBody(func(nd ast.Node) bool {
			switch x := nd.(type) {
			case *ast.TypeSwitchStmt:
				inspections = append(inspections, x.Assign) // the node the graph holds
			case *ast.TypeAssertExpr:
				if x.Type != nil {
					inspections = append(inspections, x)
				}
			}
			return true
		})
		if len(inspections) == 0 {
			continue
		}
		for _, callee := range []string{"encoding/xml.TokenReader.Token", "encoding/xml.Decoder.Token", "mellium.im/xmlstream.TokenReader.Token"} {
			for _, cl := range f.Calls(callee) {
				cp, ok := g.Where(cl)
				if !ok {
					continue
				}
				// does an inspection follow this read?
				follows := false
				isInsp := func(q eng.Point, nd ast.Node) bool {
					for _, in := range inspections {
						if nd != nil && (nd == in || containsNode(nd, in) || (nd.Pos() <= in.Pos() && in.End() <= nd.End())) {
							return true
						}
					}
					return false
				}
				for _, in := range inspections {
					var stmt ast.Node = in
					for stmt != nil {
						if _, placed := g.Where(stmt); placed {
							break
						}
						stmt = g.Parent(stmt)
					}
					if ip, ok := g.Where(stmt); ok && g.Reachable(g.After(cp), ip, nil, nil) {
						follows = true
					}
				}
				if !follows {
					continue
				}
				nrm := f.Norm(cl, &cp)
				// readers the caller supplies (a parameter of the function or of the
				// function that built this closure) may be of any kind; a reader the
				// library wraps itself (the session's decoder behind the stream
				// filter) never delivers a token together with an error
				if !strings.Contains(nrm, "[outer.p") && !strings.Contains(nrm, "[p") {
					continue
				}
				for _, rs := range g.Returns {
					if len(rs.Results) != 2 {
						continue
					}
					rp, ok := g.Where(rs)
					if !ok || !g.Reachable(g.After(cp), rp, nil, isInsp) {
						continue
					}
					if f.Norm(rs.Results[1], &rp) != nrm+"#1" {
						continue
					}
					// only returns that are there BECAUSE of the error (behind a
					// test that it is not nil); a plain pass-through of token and
					// error on a path with nothing to transform is fine
					if isErrPath, _ := g.DominatedAny(rp, []string{"!eq(" + nrm + "#1,nil)"}); !isErrPath {
						continue
					}
					n++
					okd, _ := g.DominatedAny(rp, []string{"!eq(" + nrm + "#1,var:io.EOF)", "eq(" + nrm + "#0,nil)", "!errors.Is(" + nrm + "#1,var:io.EOF)"})
					c.r.Check(id, f, "read error returned before the token is looked at", "G: a token transformer returns the error of its read, without looking at the token, only if the error is not io.EOF or no token came with it", rs.Pos(), okd, "the last token of a reader that delivers it together with io.EOF is passed through unseen ("+strings.TrimPrefix(f.Short, "xmpp.")+")")
				}
			}
		}
	}
	return n
}
