package rules

import (
	"go/ast"
	"go/types"
	"strings"

	"verif/checker/eng"
)

// handlersBuildTheirPayloads (C19.44): an xml.TokenReader is a one-shot value:
// once copied to the wire it is at its end. A handler is registered once and
// answers many requests, so the payload of each answer is built in the call: no
// Handle* method of a module type passes on a token reader that it reads from a
// field of its receiver (a reply payload "built once at registration" is
// complete in the first answer and empty in every later one).
//
// Returns the number of Handle* methods examined.
func handlersBuildTheirPayloads(c *cx, id string) int {
	n := 0
	for _, f := range c.allFns() {
		if f.Decl == nil || f.Decl.Recv == nil {
			continue
		}
		switch f.Decl.Name.Name {
		case "HandleIQ", "HandleMessage", "HandlePresence", "HandleXMPP":
		default:
			continue
		}
		n++
		recv := f.Sig().Recv()
		bad := ""
		f.WalkBody(func(nd ast.Node) bool {
			sel, ok := nd.(*ast.SelectorExpr)
			if !ok {
				return true
			}
			t := f.Info().TypeOf(sel)
			if t == nil {
				return true
			}
			ts := eng.TypeStr(t)
			if ts != "encoding/xml.TokenReader" && !strings.HasSuffix(ts, "xmlstream.TokenReadCloser") && !strings.HasSuffix(ts, "xmlstream.TokenReader") {
				return true
			}
			// a field reached from the receiver
			root := ast.Expr(sel)
			for {
				s2, ok := ast.Unparen(root).(*ast.SelectorExpr)
				if !ok {
					break
				}
				root = s2.X
			}
			if idn, ok := ast.Unparen(root).(*ast.Ident); ok && f.Info().Uses[idn] == types.Object(recv) {
				if fo, isField := f.Info().Uses[sel.Sel].(*types.Var); isField && fo.IsField() {
					bad = f.Prog.NodeStr(sel) + " at " + f.Prog.Pos(sel.Pos())
				}
			}
			return true
		})
		c.r.Check(id, f, "token readers used by the handler", "E-alias: a handler does not consume a token reader stored in its receiver (one-shot value, many invocations)", f.Pos(), bad == "", "reads "+bad+": the second invocation finds the reader at its end and answers with an empty payload")
	}
	return n
}
