package rules

import (
	"fmt"
	"go/ast"
	"go/token"
	"go/types"
	"strings"

	"verif/checker/eng"
)

func init() {
	Registry["C17"] = Rule{
		Meta: eng.Meta{
			Explanation: "STRUCTURAL PART ONLY of 'the styling decoder is lossless, chunk-independent and well-bracketed' (chunk independence and whole-document nesting are not decided). Decided on every path of Decoder.scan, scanSpan and scanPre: every return is (0, nil, nil), (k, data[:k], nil) with the SAME k in affine normal form, (len(data), data, nil), or a tail call of a sibling split function on the same (data, atEOF): tokens are exactly the consumed prefix, so the concatenation of token data equals the input (C17.1); every 'need more data' return is dominated by !atEOF or by an empty input: the scanner cannot stall at end of input or drop a tail (C17.2); mask bookkeeping: wherever the mask gains an XStart bit it gains X in the same statement and the clear mask gains XStart next to it, wherever it gains XEnd the clear mask gains X|XEnd, for all six kinds (C17.3); one push and one pop of the span stack, the pop keyed by the directive byte on top of the stack (C17.4); a span can only start outside preformatted spans (C17.5); index rules of C09 over the file (C17.6).",
			NotDecided:  "chunk independence of tokens/masks/info strings, bracket nesting over whole documents, long lines (bufio limit), termination.",
			Trusted:     trustedCommon,
		},
		Run: runC17,
	}
}

func runC17(p *eng.Prog, r *eng.Report, tier string) {
	c := &cx{p, r, tier}
	c.r.Floor("C17.18", "returns without token and error in the styling scanners", r19NoSilentAdvance(c, "C17.18"), 2)
	c.r.Floor("C17.17", "comparisons of a buffer length in the styling scanners", r18WaitsDoNotDependOnBufferedLength(c, "C17.17"), 3)
	c.r.Note("C17.16: %d range loops over strings in package styling", r17RuneLengthsInBytes(c, "C17.16"))
	c17QuoteChain(c, "C17.10")
	c17QuoteStartedHasDecoder(c, "C17.12")
	c17CloseDirectiveEndsTheSpan(c, "C17.13")
	c17ScannerReadsTheInput(c, "C17.14")
	c17TokenLengthWithinData(c, "C17.11")
	split := map[string]bool{"styling.Decoder.scan": true, "styling.Decoder.scanSpan": true, "styling.Decoder.scanPre": true}
	nret := 0
	fenceWait := 0
	runTok := 0
	for _, name := range []string{"(*Decoder).scan", "(*Decoder).scanSpan", "(*Decoder).scanPre"} {
		f := c.fn("C17.1", "styling", name)
		if f == nil {
			continue
		}
		g := f.Graph()
		for _, rs := range g.Returns {
			nret++
			pt, _ := g.Where(rs)
			form := ""
			if res := retResults(f, rs); len(res) == 1 && len(rs.Results) != 1 {
				if cl, ok := ast.Unparen(res[0]).(*ast.CallExpr); ok && split[f.CalleeID(cl)] && len(cl.Args) == 2 && f.Norm(cl.Args[0], nil) == "p0" && f.Norm(cl.Args[1], nil) == "p1" {
					form = "tail call"
				}
			}
			switch len(rs.Results) {
			case 1:
				if cl, ok := ast.Unparen(rs.Results[0]).(*ast.CallExpr); ok && split[f.CalleeID(cl)] && len(cl.Args) == 2 && f.Norm(cl.Args[0], nil) == "p0" && f.Norm(cl.Args[1], nil) == "p1" {
					form = "tail call"
				}
			case 3:
				adv, tok, er := rs.Results[0], ast.Unparen(rs.Results[1]), f.Norm(rs.Results[2], nil)
				if er != "nil" {
					break
				}
				a := affine(f, adv)
				switch t := tok.(type) {
				case *ast.Ident:
					if t.Name == "nil" && a == "+0" {
						form = "need more data"
					}
					if f.Norm(t, nil) == "p0" && a == "+builtin.len(p0)" {
						form = "whole input"
					}
				case *ast.SliceExpr:
					lowOK := t.Low == nil || affine(f, t.Low) == "+0"
					if f.Norm(t.X, nil) == "p0" && lowOK && t.High != nil && affine(f, t.High) == a && !t.Slice3 {
						form = "prefix"
					}
				}
			}
			if !c.r.Check("C17.1", f, "return "+c.p.NodeStr(rs), "every return of a split function is (0,nil,nil), (k,data[:k],nil) with the same k, (len(data),data,nil) or a sibling tail call: the token is exactly the consumed prefix", rs.Pos(), form != "", "return does not have one of the lossless forms") {
				continue
			}
			if form == "whole input" {
				okd, why := g.DominatedAny(pt, []string{"p1"})
				c.r.Check("C17.2", f, "whole-input return", "G: 'everything buffered so far' is emitted as one token only at end of input (otherwise token boundaries would depend on how the input is chunked)", rs.Pos(), okd, why)
				// at end of input the buffer can still hold several lines (a
				// reader may deliver data together with EOF): a function that
				// finds lines by searching for the newline emits "everything"
				// only when no newline is left
				if len(f.Calls("bytes.IndexByte")) > 0 {
					okn, whyn := g.DominatedAny(pt, []string{"lt(bytes.IndexByte(p0,10),0)", "eq(bytes.IndexByte(p0,10),-1)", "!lt(0,bytes.IndexByte(p0,10))", "!lt(-1,bytes.IndexByte(p0,10))"})
					c.r.Check("C17.2", f, "whole-input return only without a newline", "G: at end of input the rest is one token only if it holds no newline (line tokens do not depend on whether EOF arrived together with the data)", rs.Pos(), okn, whyn)
				}
			}
			if form == "prefix" {
				// a prefix whose length is a local that may still hold len(data)
				// is "everything buffered so far" on those paths: with a newline
				// in the buffer the whole input must not be what is returned
				// (line tokens do not depend on whether EOF came with the data)
				if kid, ok := ast.Unparen(rs.Results[0]).(*ast.Ident); ok {
					if kv, ok := f.Info().ObjectOf(kid).(*types.Var); ok && eng.IsLocal(kv) {
						cut := g.CutFor("!lt(bytes.IndexByte(p0,10),0)", "!eq(bytes.IndexByte(p0,10),-1)", "lt(-1,bytes.IndexByte(p0,10))")
						for _, d := range g.ReachingDefsCut(kv, pt, cut) {
							if d.RHS != nil && f.Norm(d.RHS, &d.At) == "builtin.len(p0)" && len(f.Calls("bytes.IndexByte")) > 0 {
								c.r.Check("C17.2", f, "prefix return whose length may be the whole input", "G: assuming the buffer holds a newline, no definition `k = len(data)` reaches a (k, data[:k], nil) return", rs.Pos(), false, "the length defined at "+c.p.Pos(d.Node.Pos())+" as len(data) reaches this return although a newline is in the buffer: at end of input the token runs past the line")
							}
						}
					}
				}
				// a token whose length comes from scanning a run (quote marker
				// plus following white space) may be cut short by the end of
				// the buffer: wait for more data unless the input ends here
				for _, res := range rs.Results[:1] {
					k := f.Norm(res, &pt)
					if strings.Contains(k, "styling.startsBlockQuote(") {
						okr, whyr := false, "no dominating fact compares the end of the run with the end of the buffer AND asks whether the next character is complete"
						for _, fa := range g.FactsAt(pt) {
							if fa == "p1" {
								okr = true
							}
							if strings.Contains(fa, "!eq(builtin.len(p0),"+k+")") && strings.Contains(fa, "unicode/utf8.FullRune(p0["+k+":])") && !strings.Contains(fa, "!unicode/utf8.FullRune(") {
								okr = true
								// the run may be handed on for no other reason: every
								// disjunct of the fact is "no run", "input ends here" or
								// "the run ended inside the buffer before a complete
								// character" (one more escape - "the run ends its line" -
								// makes the token depend on where the chunk ends)
								if strings.HasPrefix(fa, "or(") {
									for _, dj := range splitTop(fa[3:len(fa)-1], " | ") {
										switch {
										case dj == "p1", dj == "!lt(0,"+k+")", dj == "eq("+k+",0)", dj == "!lt(0,"+k+")":
										case strings.HasPrefix(dj, "and(") && strings.Contains(dj, "!eq(builtin.len(p0),"+k+")") && strings.Contains(dj, "unicode/utf8.FullRune(p0["+k+":])") && len(splitTop(dj[4:len(dj)-1], " & ")) == 2:
										default:
											okr, whyr = false, "the run is also handed on when "+dj+": whether that holds depends on where the buffer ends"
										}
									}
								}
							}
						}
						c.r.Check("C17.2", f, "run-length token does not end at the end of the buffer", "G: a token whose extent was found by scanning a run is emitted only if the run ended before the end of the buffer AND the next character is complete, or the input ends here (a partial multi-byte white space after '>' belongs to the run)", rs.Pos(), okr, whyr)
						runTok++
					}
				}
			}
			if form == "need more data" {
				if ok, _ := g.Dominated(pt, "bytes.HasPrefix(p0,var:styling.fence)"); ok {
					fenceWait++
				}
				okd, why := g.DominatedAny(pt, []string{"!p1", "eq(builtin.len(p0),0)", "and(eq(builtin.len(p0),0) & p1)"})
				// `atEOF && len(data) == 0` guard at the top of scan
				if !okd {
					okd2, _ := g.DominatedAny(pt, []string{"eq(builtin.len(p0),0)"})
					okd = okd2
				}
				c.r.Check("C17.2", f, "need-more-data return", "G: asking for more data is dominated by !atEOF (or an empty input): no stall and no dropped tail at end of input", rs.Pos(), okd, why)
			}
		}
	}
	c.r.Floor("C17.1", "returns of the split functions", nret, 16)
	c.r.Floor("C17.2", "run-length (quote start) token returns", runTok, 1)
	// C17.7 no line is too long: scanSpan needs a complete line before it emits
	// anything, so the line length is bounded by the scanner's token limit. The
	// default (bufio.MaxScanTokenSize, 64 KiB) makes Next fail with ErrTooLong
	// and drops the rest of the input; NewDecoder lifts the limit.
	if nd := c.fn("C17.7", "styling", "NewDecoder"); nd != nil {
		g := nd.Graph()
		okBuf := false
		why := "NewDecoder never calls Scanner.Buffer: lines of 64 KiB or more are not decoded at all (bufio.ErrTooLong, no token for the rest of the input)"
		for _, cl := range nd.Calls("bufio.Scanner.Buffer") {
			if len(cl.Args) != 2 {
				continue
			}
			v, isConst := nd.ConstInt(cl.Args[1])
			pt, _ := g.Where(cl)
			all := true
			for _, rs := range g.Returns {
				rp, _ := g.Where(rs)
				if !g.MustPassBefore(g.Entry(), rp, func(q eng.Point, x ast.Node) bool { return containsNode(x, cl) }, nil) {
					all = false
				}
			}
			_ = pt
			if isConst && v >= 1<<31-1 && all {
				okBuf = true
			} else {
				why = "Scanner.Buffer is called with a limit that still bounds the line length, or not on every path"
			}
		}
		c.r.Check("C17.7", nd, "scanner token limit lifted", "K: NewDecoder calls Scanner.Buffer with a maximum of at least math.MaxInt32 on every path", nd.Pos(), okBuf, why)
	}
	// the closing fence: whether ``` at the start of a line closes the block
	// depends on the byte after it. When the buffer ends right after the
	// fence, that byte has not arrived: the block may be closed only at the
	// end of the input (otherwise the decision depends on the chunking)
	if sp := c.fn("C17.2", "styling", "(*Decoder).scanPre"); sp != nil {
		g := sp.Graph()
		nEnd := 0
		sp.WalkBody(func(nd ast.Node) bool {
			as, ok := nd.(*ast.AssignStmt)
			if !ok || as.Tok != token.OR_ASSIGN {
				return true
			}
			if k, _ := sp.FieldClass(as.Lhs[0]); k != "styling.Decoder.mask" {
				return true
			}
			pt, okp := g.Where(as)
			if !okp {
				return true
			}
			nEnd++
			okd, why := g.DominatedAny(pt, []string{
				"or(!eq(builtin.len(p0),builtin.len(var:styling.fence)) | !eq(bytes.Index(p0,var:styling.fence),0) | p1)",
				"or(!eq(builtin.len(p0),builtin.len(var:styling.fence)) | p1)",
				"p1",
				"!eq(builtin.len(p0),builtin.len(var:styling.fence))",
				"lt(builtin.len(var:styling.fence),builtin.len(p0))",
			})
			c.r.Check("C17.2", sp, "closing fence decided with the next byte in view", "G: the pre block is closed only when the buffer goes on after the fence or the input ends here (a fence at the very end of a chunk waits for more data)", as.Pos(), okd, why)
			return true
		})
		c.r.Floor("C17.2", "closing-fence sites in scanPre", nEnd, 1)
	}
	c.r.CheckNamed("C17.2", "styling.(*Decoder).scan", "incomplete fence line waits for more data", "a line that begins with the code fence but whose end has not arrived yet is not classified: scan asks for more data under HasPrefix(data, fence)", 0, fenceWait >= 1, "no need-more-data return under the fence-prefix test: an incomplete fence line is handed on as ordinary text")

	// ---- C17.8 every token that carries scanner data gets its info string ---------
	// Next builds a Token from the scanner's bytes and computes Info for it when
	// the style says "start of a preformatted block". A token that is held back
	// (for the virtual block quote end) must be the token that was built, not a
	// second literal built later from the bytes alone. Every Token literal with
	// a Data field reaches a store into a field of the decoder only through the
	// BlockPreStart test.
	if nx := c.fn("C17.8", "styling", "(*Decoder).Next"); nx != nil {
		g := nx.Graph()
		isInfo := func(q eng.Point, nd ast.Node) bool {
			found := false
			ast.Inspect(nd, func(x ast.Node) bool {
				if idn, ok := x.(*ast.Ident); ok && idn.Name == "BlockPreStart" {
					found = true
				}
				return !found
			})
			return found
		}
		nl := 0
		for _, lit := range nx.WalkLits("styling.Token") {
			if structLitField(lit, "Data") == nil {
				continue
			}
			nl++
			lp, ok := g.Where(lit)
			if !ok {
				continue
			}
			bad := ""
			for _, w := range nx.Writes() {
				if k, ok := nx.FieldClass(w.LHS); !ok || !strings.HasPrefix(k, "styling.Decoder.") {
					continue
				}
				if t := nx.Info().TypeOf(w.LHS); t == nil || !strings.Contains(eng.TypeStr(t), "styling.Token") {
					continue
				}
				wp, _ := g.Where(w.Stmt)
				if wp == lp {
					bad = "the literal is stored at " + c.p.Pos(w.Stmt.Pos()) + " as it is built: no info string is computed for it"
					break
				}
				if g.Reachable(g.After(lp), wp, nil, nil) && !g.MustPassBefore(g.After(lp), wp, isInfo, nil) {
					// only stores of this literal's variable matter
					if v := rootLocal(nx, w.RHS); v != nil {
						if d := g.UniqueDef(v, wp); d != nil && d.RHS != nil && nodeContains(d.RHS, lit) {
							bad = "the token reaches the store at " + c.p.Pos(w.Stmt.Pos()) + " on a path that skips the info computation"
						}
					}
				}
			}
			c.r.Check("C17.8", nx, "token built from scanner data gets its info string", "O: a Token literal that carries data reaches the decoder's token fields only through the BlockPreStart test that computes Info", lit.Pos(), bad == "", bad)
		}
		c.r.Floor("C17.8", "token literals with data in Next", nl, 1)
	}
	// ---- C17.9 no emission depends on a look-ahead that did not ask for data ---------
	// scanSpan may look at the byte after the current one (p0[i+1]) to tell "**"
	// from "*", but only where nothing is emitted: whether that byte is in the
	// buffer depends on how the input was chunked. No token-emitting return of
	// scanSpan is dominated by a fact about p0[(i + 1)] (in either polarity)
	// unless it is also dominated by atEOF or by "the line is complete".
	if sp := c.fn("C17.9", "styling", "(*Decoder).scanSpan"); sp != nil {
		g := sp.Graph()
		n := 0
		for _, rs := range g.Returns {
			if len(rs.Results) != 3 {
				continue
			}
			if k, isK := sp.ConstInt(rs.Results[0]); isK && k == 0 {
				continue // asks for more data / emits nothing
			}
			n++
			pt, _ := g.Where(rs)
			bad := ""
			for _, a := range g.FactsAt(pt) {
				if strings.Contains(a, "p0[(rangekey(p0) + 1)]") {
					bad = a
				}
			}
			if bad != "" {
				if okE, _ := g.DominatedAny(pt, []string{"p1"}); okE {
					bad = ""
				}
			}
			c.r.Check("C17.9", sp, "emission does not depend on an unrequested look-ahead", "G: a token-emitting return of scanSpan is not dominated by a fact about the byte after the current one (its presence depends on the chunking), unless the input has ended", rs.Pos(), bad == "", "dominated by "+bad+": with a read boundary right after the current byte the other branch is taken")
		}
		c.r.Floor("C17.9", "token-emitting returns of scanSpan", n, 3)
	}
	// ---- C17.4b an open span has priority over block-level constructs -----------------
	if sc := c.fn("C17.4", "styling", "(*Decoder).scan"); sc != nil {
		nb := 0
		for _, cl := range sc.AllCalls() {
			cid := sc.CalleeID(cl)
			isFence := cid == "bytes.HasPrefix" && len(cl.Args) == 2 && strings.HasSuffix(sc.Norm(cl.Args[1], nil), "styling.fence")
			if cid == "styling.startsBlockQuote" || isFence {
				nb++
				c.dom("C17.4", sc, cl, "block construct "+cid+" only outside spans", []string{"!lt(0,builtin.len(recv.spanStack))"})
			}
		}
		c.r.Floor("C17.4", "block-level detections in scan", nb, 2)
	}
	// ---- C17.3 mask pairing --------------------------------------------------------
	pk := p.Pkg("styling")
	bit := func(name string) int64 {
		if pk == nil {
			return 0
		}
		if o := pk.Types.Scope().Lookup(name); o != nil {
			if cst, ok := o.(interface {
				Val() interface{ ExactString() string }
			}); ok {
				_ = cst
			}
			var v int64
			s := o.String()
			_ = s
			if tc, ok := o.(interface {
				Val() interface{ String() string }
			}); ok {
				_ = tc
			}
			return constOf(o, &v)
		}
		return 0
	}
	kinds := []string{"BlockPre", "BlockQuote", "SpanEmph", "SpanStrong", "SpanStrike", "SpanPre"}
	nm := 0
	seenStart, seenEnd := map[string]bool{}, map[string]bool{}
	for _, name := range []string{"(*Decoder).scan", "(*Decoder).scanSpan", "(*Decoder).scanPre"} {
		f := c.p.Func("styling", name)
		if f == nil {
			continue
		}
		g := f.Graph()
		f.WalkBody(func(nd ast.Node) bool {
			as, ok := nd.(*ast.AssignStmt)
			if !ok || as.Tok != token.OR_ASSIGN {
				return true
			}
			if k, _ := f.FieldClass(as.Lhs[0]); k != "styling.Decoder.mask" {
				return true
			}
			v, okc := f.ConstInt(as.Rhs[0])
			if !okc {
				return true
			}
			// the clearMask |= statements of the same statement list
			var clear int64
			switch par := g.Parent(as).(type) {
			case *ast.BlockStmt:
				clear = clearBits(f, par.List)
			case *ast.CaseClause:
				clear = clearBits(f, par.Body)
			}
			for _, kd := range kinds {
				x, xs, xe := bit(kd), bit(kd+"Start"), bit(kd+"End")
				if v&xs != 0 {
					nm++
					seenStart[kd] = true
					c.r.Check("C17.3", f, "mask gains "+kd+"Start", "T: a start directive bit comes with its style bit, and is scheduled to be cleared after this token", as.Pos(), v&x != 0 && clear&xs != 0 && clear&x == 0, "mask |= without "+kd+", or clearMask lacks "+kd+"Start / clears the style itself")
				}
				if v&xe != 0 {
					nm++
					seenEnd[kd] = true
					c.r.Check("C17.3", f, "mask gains "+kd+"End", "T: an end directive bit schedules both the style bit and itself to be cleared after this token", as.Pos(), clear&xe != 0 && clear&x != 0, "clearMask lacks "+kd+" | "+kd+"End")
					// ... and nothing of another kind: closing a span nested in
					// another leaves the outer span's style on the tokens that follow
					var foreign int64
					for _, other := range kinds {
						if other != kd {
							foreign |= bit(other) | bit(other+"Start") | bit(other+"End")
						}
					}
					c.r.Check("C17.3", f, "mask gains "+kd+"End [only its own bits are cleared]", "T: the bits scheduled for clearing next to an end directive belong to that kind", as.Pos(), clear&foreign&^v == 0, fmt.Sprintf("clearMask also holds bits of other kinds (%#x): the enclosing span loses its style", clear&foreign))
				}
			}
			return true
		})
	}
	for _, kd := range kinds {
		c.r.CheckNamed("C17.3", "styling", "kind "+kd+" has a start site", "every style kind is switched on somewhere with its Start directive", 0, seenStart[kd], "no mask |= "+kd+"Start")
		if kd != "BlockQuote" { // block quotes end through the virtual close token (Decoder.Next), not through the mask
			c.r.CheckNamed("C17.3", "styling", "kind "+kd+" has an end site", "every style kind is switched off somewhere with its End directive", 0, seenEnd[kd], "no mask |= "+kd+"End")
		}
	}
	_ = nm
	// the clear mask is applied at the start of every scan
	sc := c.p.Func("styling", "(*Decoder).scan")
	if sc != nil {
		g := sc.Graph()
		applied := func(q eng.Point, nd ast.Node) bool {
			as, ok := nd.(*ast.AssignStmt)
			if !ok || as.Tok != token.AND_NOT_ASSIGN {
				return false
			}
			k, _ := sc.FieldClass(as.Lhs[0])
			k2, _ := sc.FieldClass(as.Rhs[0])
			return k == "styling.Decoder.mask" && k2 == "styling.Decoder.clearMask"
		}
		reset := func(q eng.Point, nd ast.Node) bool {
			as, ok := nd.(*ast.AssignStmt)
			if !ok || as.Tok != token.ASSIGN || len(as.Lhs) != 1 || len(as.Rhs) != 1 {
				return false
			}
			k, _ := sc.FieldClass(as.Lhs[0])
			v, isC := sc.ConstInt(as.Rhs[0])
			return k == "styling.Decoder.clearMask" && isC && v == 0
		}
		for _, cl := range append(sc.Calls("styling.Decoder.scanSpan"), sc.Calls("styling.Decoder.scanPre")...) {
			pt, _ := g.Where(cl)
			c.r.Check("C17.3", sc, "clear mask emptied before "+sc.CalleeID(cl), "O: the bits scheduled by the previous token are applied once: the clear mask is reset before the next token is scanned (a mask that is kept strips the style of every later token of the enclosing span)", cl.Pos(), g.MustPassBefore(g.Entry(), pt, reset, nil), "scan reaches the sub-scanner without clearMask = 0")
			c.r.Check("C17.3", sc, "clear mask applied before "+sc.CalleeID(cl), "O: directive bits of the previous token are cleared before the next token is scanned", cl.Pos(), g.MustPassBefore(g.Entry(), pt, applied, nil), "scan reaches the sub-scanner without mask &^= clearMask")
		}
	}

	// ---- C17.4 / C17.5 --------------------------------------------------------------------
	sp := c.fn("C17.4", "styling", "(*Decoder).scanSpan")
	if sp != nil {
		g := sp.Graph()
		push, pop := 0, 0
		for _, w := range sp.FieldWrites("styling.Decoder.spanStack") {
			rhs := sp.Norm(w.RHS, nil)
			switch {
			case strings.HasPrefix(rhs, "builtin.append(recv.spanStack,"):
				push++
				c.domAny("C17.4", sp, w.Stmt, "span stack push", []string{"eq(rangeval(p0),local:*<byte>)", "eq(local:*<byte>,rangeval(p0))"})
			case rhs == "recv.spanStack[:(builtin.len(recv.spanStack) - 1)]":
				pop++
				c.dom("C17.4", sp, w.Stmt, "span stack pop", []string{"eq(rangeval(p0),recv.spanStack[(builtin.len(recv.spanStack) - 1)])", "lt(0,builtin.len(recv.spanStack))"})
				// ... and under nothing else: the closer of the innermost open
				// span always closes it (an extra condition leaves a span open
				// at the end of its line)
				c.onlyFacts("C17.4", sp, w.Stmt, "span stack pop", []string{"eq(rangeval(p0),recv.spanStack[(builtin.len(recv.spanStack) - 1)])", "lt(0,builtin.len(recv.spanStack))", "rangenext(p0)", "!eq(rangeval(p0),10)", "lt(*", "!lt(*", "!eq(*,10)", "or(*", "eq(rangekey(p0),0)", "!eq(rangekey(p0),0)"})
			default:
				c.r.Check("C17.4", sp, "span stack write", "the stack is only pushed and popped", w.Stmt.Pos(), false, "spanStack = "+rhs)
			}
		}
		c.r.Check("C17.4", sp, "span stack push/pop", "one push in the start arm, one pop in the matching end arm", sp.Pos(), push == 1 && pop == 1, "found "+itoa(push)+" pushes and "+itoa(pop)+" pops")
		// newline ends the line before anything else is scanned
		okNL := false
		for _, rs := range g.Returns {
			pt, _ := g.Where(rs)
			if ok, _ := g.Dominated(pt, "eq(rangeval(p0),10)"); ok {
				facts := g.FactsAt(pt)
				okNL = len(facts) <= 2
			}
		}
		c.r.Check("C17.4", sp, "newline ends the token", "G: a newline returns the line immediately (spans do not cross lines)", sp.Pos(), okNL, "no unconditional return on newline")
		// C17.5
		n := 0
		for _, w := range sp.Writes() {
			// the span start candidate: the local that is assigned the index of
			// the byte under the cursor (role, not name)
			wp0, _ := sp.Graph().Where(w.Stmt)
			if v := rootLocal(sp, w.LHS); v == nil || w.Tok != token.ASSIGN || w.RHS == nil || sp.Norm(w.RHS, &wp0) != "rangekey(p0)" {
				continue
			}
			n++
			c.dom("C17.5", sp, w.Stmt, "span start candidate", []string{"!all(recv.mask,styling.SpanPre)", "eq(local:*<int>,-1)"})
		}
		c.r.Floor("C17.5", "span start candidates", n, 1)
	}
	// ---- C17.6 ---------------------------------------------------------------------------------
	for _, f := range c.allFns() {
		if strings.HasPrefix(f.Short, "styling.") {
			c09IndexID(c, "C17.6", f, "styling decoder")
			for _, ta := range bareAsserts(f) {
				c.r.Check("C17.6", f, "bare type assertion", "no non-comma-ok assertion", ta.Pos(), false, "")
			}
		}
	}
}

func clearBits(f *eng.Fn, list []ast.Stmt) int64 {
	var out int64
	for _, st := range list {
		as, ok := st.(*ast.AssignStmt)
		if !ok || as.Tok != token.OR_ASSIGN {
			continue
		}
		if k, _ := f.FieldClass(as.Lhs[0]); k == "styling.Decoder.clearMask" {
			if v, ok := f.ConstInt(as.Rhs[0]); ok {
				out |= v
			}
		}
	}
	return out
}

// c17QuoteChain (C17.10): block quotes nest through a chain of decoders
// (Decoder.quoteSplit). Two structural conditions of "styles are well
// bracketed and do not leak from one block into the next":
// (a) the per-line reset reaches every level of the chain: in scan, the store
// that clears hasRun through a variable other than the receiver belongs to a
// walk of the chain - that variable is advanced by `v = v.quoteSplit` (a reset
// of "this level and the next" leaves the pre-block mask of a grandchild
// readable through Style());
// (b) a level that the input has left is dropped, not recycled: every store to
// Decoder.quoteSplit is nil or a fresh decoder, and no field of another
// decoder than the receiver is assigned except the two per-line flags (an
// inner decoder kept "for the next quote" keeps its pre-block mask).
func c17QuoteChain(c *cx, id string) {
	f := c.fn(id, "styling", "(*Decoder).scan")
	if f == nil {
		return
	}
	g := f.Graph()
	recv := f.Sig().Recv()
	nReset, nStore := 0, 0
	for _, w := range f.Writes() {
		sel, ok := ast.Unparen(w.LHS).(*ast.SelectorExpr)
		if !ok {
			continue
		}
		cls, okc := f.FieldClass(sel)
		if !okc || !strings.HasPrefix(cls, "styling.Decoder.") {
			continue
		}
		field := strings.TrimPrefix(cls, "styling.Decoder.")
		rootID, isID := ast.Unparen(sel.X).(*ast.Ident)
		var root *types.Var
		if isID {
			root, _ = f.Info().ObjectOf(rootID).(*types.Var)
		}
		if field == "quoteSplit" {
			nStore++
			okv := false
			if w.RHS != nil {
				switch x := ast.Unparen(w.RHS).(type) {
				case *ast.Ident:
					okv = x.Name == "nil"
				case *ast.UnaryExpr:
					_, isLit := ast.Unparen(x.X).(*ast.CompositeLit)
					okv = isLit
				case *ast.CallExpr:
					okv = f.CalleeID(x) == "styling.NewDecoder" || f.CalleeID(x) == "builtin.new"
				}
			}
			c.r.Check(id, f, "store to Decoder.quoteSplit", "K: the inner decoder of a quote level is nil or freshly made (a level that was left is dropped whole)", w.Stmt.Pos(), okv && root == recv, "the inner decoder is kept or edited: its block state leaks into the next quote")
			continue
		}
		if root == recv && isID {
			continue
		}
		// a field of another decoder than the receiver
		switch field {
		case "quoteStarted", "hasRun":
			if field != "hasRun" {
				continue
			}
			nReset++
			walks := false
			if root != nil {
				for _, d := range g.DefsOf(root) {
					if d.RHS != nil && strings.HasSuffix(f.Norm(d.RHS, nil), ".quoteSplit") {
						if rs, ok := ast.Unparen(d.RHS).(*ast.SelectorExpr); ok {
							if rid, ok := ast.Unparen(rs.X).(*ast.Ident); ok && f.Info().ObjectOf(rid) == root {
								walks = true
							}
						}
					}
				}
			}
			pt, _ := g.Where(w.Stmt)
			onCycle := g.Reachable(g.After(pt), pt, nil, nil)
			c.r.Check(id, f, "per-line reset of an inner level", "O: the reset of hasRun through a variable other than the receiver is part of a walk of the whole quote chain (v = v.quoteSplit, in a loop)", w.Stmt.Pos(), walks && onCycle, "only a fixed number of levels is reset: a deeper level keeps its mask and Style() reports it for the next line")
		default:
			c.r.Check(id, f, "field "+field+" of another decoder assigned", "W: scan assigns to the fields of its own level only (the per-line flags of the chain excepted)", w.Stmt.Pos(), false, "the inner decoder is edited in place instead of being dropped")
		}
	}
	c.r.Floor(id, "per-line resets of inner levels in scan", nReset, 1)
	c.r.Floor(id, "stores to Decoder.quoteSplit in scan", nStore, 2)
}

// c17TokenLengthWithinData (C17.11): the closing fence token of a pre block is
// the fence plus the newline behind it if there is one: the token length is
// increased past the fence only on the edge that establishes that the data is
// longer than the fence (what the reader says about the end of the input is
// not a fact about the length of this chunk: a reader that reports EOF
// together with its last data, or any chunk that ends with the fence, would
// make data[:l] run past the data or split the token differently).
func c17TokenLengthWithinData(c *cx, id string) {
	f := c.fn(id, "styling", "(*Decoder).scanPre")
	if f == nil {
		return
	}
	n := 0
	for _, w := range f.Writes() {
		if w.Tok != token.INC {
			continue
		}
		v := rootLocal(f, w.LHS)
		if v == nil || !eng.IsLocal(v) {
			continue
		}
		n++
		c.domAny(id, f, w.Stmt, "token length extended by the newline", []string{"lt(builtin.len(var:styling.fence),builtin.len(p0))", "lt(local:*<int>,builtin.len(p0))", "!eq(builtin.len(p0),builtin.len(var:styling.fence))"})
	}
	c.r.Floor(id, "increments of the token length in scanPre", n, 1)
}

// c17QuoteStartedHasDecoder (C17.12): Decoder.quoteStarted means "the tokens
// of this line belong to the inner decoder": Quote(), the delegating arms of
// scan and the level bookkeeping dereference Decoder.quoteSplit whenever the
// flag is set. Every store of true into quoteStarted is reached only with the
// inner decoder in place: each path from the entry passes a store of a non-nil
// value into quoteSplit or an edge that establishes quoteSplit != nil. A cap
// on the nesting depth that skips the allocation but still sets the flag makes
// the 33rd '>' of a line a nil dereference.
func c17QuoteStartedHasDecoder(c *cx, id string) {
	n := 0
	for _, f := range c.allFns() {
		if !strings.HasPrefix(f.Short, "styling.") {
			continue
		}
		g := f.Graph()
		for _, w := range f.FieldWrites("styling.Decoder.quoteStarted") {
			if w.RHS == nil || f.Norm(w.RHS, nil) != "true" {
				continue
			}
			n++
			root := rootLocalOrRecv(f, w.LHS)
			cut := eng.Cut{}
			for _, ce := range g.CondEdges() {
				for _, a := range ce.Atoms {
					if a.S == "!eq("+root+".quoteSplit,nil)" {
						cut[ce.E] = true
					}
				}
			}
			stored := func(q eng.Point, nd ast.Node) bool {
				as, ok := nd.(*ast.AssignStmt)
				if !ok {
					return false
				}
				for i, l := range as.Lhs {
					if k, _ := f.FieldClass(l); k == "styling.Decoder.quoteSplit" && i < len(as.Rhs) && g.NilnessOf(as.Rhs[i], q) == 1 {
						return true
					}
				}
				return false
			}
			wp, _ := g.Where(w.Stmt)
			c.r.Check(id, f, "quoteStarted = true", "G: the inner decoder exists on every path to the store (a non-nil store into quoteSplit, or the edge quoteSplit != nil)", w.Stmt.Pos(), !g.Reachable(g.Entry(), wp, cut, stored), "the flag is set on a path on which quoteSplit may be nil: Quote() and the delegating arms of scan dereference it")
		}
	}
	c.r.Floor(id, "stores of true into Decoder.quoteStarted", n, 1)
}

// rootLocalOrRecv names the base of a selector chain in normal form ("recv",
// "local:x<T>", "p0").
func rootLocalOrRecv(f *eng.Fn, e ast.Expr) string {
	for {
		sel, ok := ast.Unparen(e).(*ast.SelectorExpr)
		if !ok {
			break
		}
		e = sel.X
	}
	return f.Norm(e, nil)
}

// c17CloseDirectiveEndsTheSpan (C17.13): the look-ahead that opens a span
// accepts, as its end, the next matching directive on the line that is not
// preceded by a space. The close arm of scanSpan - the directive equals the
// top of the span stack - therefore ends the span whenever it is reached:
// every path from its edge returns a token (the directive, or the text in
// front of it); none goes back into the scan. A close arm that skips a
// directive for a reason the look-ahead does not know ("it lies inside an
// inline pre span") leaves a span open that was promised an end on its line.
func c17CloseDirectiveEndsTheSpan(c *cx, id string) {
	f := c.fn(id, "styling", "(*Decoder).scanSpan")
	if f == nil {
		return
	}
	g := f.Graph()
	n := 0
	for _, ce := range g.EdgesMatching("eq(rangeval(p0),recv.spanStack[*])") {
		n++
		from := g.EdgeTarget(ce.E)
		// the condition block itself: reachable again only through the loop
		back := eng.Point{B: ce.E.B, I: 0}
		okr := !g.Reachable(from, back, nil, nil)
		c.r.Check(id, f, "close arm of scanSpan", "O: from the edge on which the directive equals the top of the span stack every path returns; the scan is not resumed", f.Pos(), okr, "the close arm can go back into the scan loop: a directive that the look-ahead took for the end of the span is skipped")
		for _, rs := range returnsFrom(f, from, nil) {
			rp, _ := g.Where(rs)
			adv := ""
			if len(rs.Results) == 3 {
				adv = f.Norm(rs.Results[0], &rp)
			}
			c.r.Check(id, f, "close arm of scanSpan [a token is returned]", "K: the close arm consumes input (the directive or the text before it)", rs.Pos(), adv != "0" && adv != "", "the close arm asks for more data / returns no token")
		}
	}
	c.r.Floor(id, "close arms in scanSpan", n, 1)
}

// c17ScannerReadsTheInput (C17.14, C17.15): (a) the decoder scans the caller's
// reader itself: NewDecoder hands bufio.NewScanner its own parameter. A
// wrapper that rewrites the bytes on the way (CR LF to LF "so that Windows
// fences close") makes the token data differ from the input, and differently
// for every way the reads fall. (b) Decoder.hasRun says "a token has been
// produced": it is there for Style() and is read by Style() only. A split
// function that decides what a line is by it ("blocks only start where nothing
// has run yet") decides by where the previous read ended: the flag is set
// before a sub-scanner asks for more data.
func c17ScannerReadsTheInput(c *cx, id string) {
	if f := c.fn(id, "styling", "NewDecoder"); f != nil {
		n := 0
		for _, cl := range f.Calls("bufio.NewScanner") {
			n++
			a := f.Norm(cl.Args[0], nil)
			c.r.Check(id, f, "reader handed to the scanner", "P: the caller's reader (parameter 0) itself", cl.Pos(), a == "p0", "the scanner reads "+a)
		}
		c.r.Floor(id, "scanners created by NewDecoder", n, 1)
	}
	n := 0
	for _, f := range c.allFns() {
		if !strings.HasPrefix(f.Short, "styling.") {
			continue
		}
		lhs := map[ast.Expr]bool{}
		for _, w := range f.Writes() {
			lhs[ast.Unparen(w.LHS)] = true
		}
		f.WalkBody(func(nd ast.Node) bool {
			sel, ok := nd.(*ast.SelectorExpr)
			if !ok || lhs[sel] {
				return true
			}
			if k, isF := f.FieldClass(sel); !isF || k != "styling.Decoder.hasRun" {
				return true
			}
			n++
			c.r.Check("C17.15", f, "read of Decoder.hasRun", "K: the has-run flag is read by Style() only", sel.Pos(), f.Short == "styling.(*Decoder).Style", "read in "+f.Short+": what the scanner takes a line for depends on where the previous read ended")
			return true
		})
	}
	c.r.Floor("C17.15", "reads of Decoder.hasRun", n, 1)
}
