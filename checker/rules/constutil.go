package rules

import (
	"go/constant"
	"go/types"
)

func constantInt(c *types.Const) (int64, bool) {
	if c.Val().Kind() != constant.Int {
		return 0, false
	}
	return constant.Int64Val(c.Val())
}
