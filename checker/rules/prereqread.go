package rules

import (
	"go/ast"
	"go/token"

	"verif/checker/eng"
)

// prerequisitesOnlyTested (C03.16 / C01.26): StreamFeature.Necessary and
// StreamFeature.Prohibited say when a feature MAY be negotiated; they are not
// something a feature achieves. Library code reads them in comparisons with
// the state only (state&Necessary == Necessary, state&Prohibited != 0). OR-ing
// a feature's Prohibited mask into the state "so that it stays excluded after
// a restart" gives the session bits nobody negotiated: s2s.Bidi prohibits
// Authn, so negotiating it marks the session authenticated and SASL is skipped.
func prerequisitesOnlyTested(c *cx, id string) int {
	n := 0
	for _, f := range c.allFns() {
		g := f.Graph()
		f.WalkBody(func(nd ast.Node) bool {
			sel, ok := nd.(*ast.SelectorExpr)
			if !ok {
				return true
			}
			k, isF := f.FieldClass(sel)
			if !isF || (k != "xmpp.StreamFeature.Necessary" && k != "xmpp.StreamFeature.Prohibited") {
				return true
			}
			// stores INTO the field (building a feature) are not reads
			if as, ok := g.Parent(sel).(*ast.AssignStmt); ok {
				for _, l := range as.Lhs {
					if l == ast.Expr(sel) {
						return true
					}
				}
			}
			n++
			inTest := false
			for anc := g.Parent(sel); anc != nil; anc = g.Parent(anc) {
				if be, ok := anc.(*ast.BinaryExpr); ok && (be.Op == token.EQL || be.Op == token.NEQ) {
					inTest = true
					break
				}
				if _, isStmt := anc.(ast.Stmt); isStmt {
					break
				}
			}
			c.r.Check(id, f, "read of "+k, "K: a feature's prerequisite masks are only compared with the state", sel.Pos(), inTest, "the mask is used as a value ("+f.Prog.NodeStr(g.Parent(sel))+"): bits a feature requires or excludes become bits of the session")
			return true
		})
	}
	return n
}

var _ = eng.ModPath
