package rules

import (
	"go/ast"
	"go/token"
	"strings"

	"verif/checker/eng"
)

// decoderReadsOwnStores (C19.42): a decoding method fills its receiver from
// the element. A field of the receiver that the method stores into carries,
// before that store, whatever the value held before the call (a reused
// variable, the zero value otherwise) - not what the element says. A read of
// such a field that some path reaches before the store makes the result depend
// on the receiver's previous content: `if f.Last {…}` placed above
// `f.Last = …` picks the page id by the old flag. For every decoding method
// of the module (UnmarshalXML, UnmarshalXMLAttr, UnmarshalText) and every
// receiver field the method stores into, each read of the field in another
// statement is preceded on every path by a store into it (or into a record
// that contains it).
//
// Returns the number of reads examined.
func decoderReadsOwnStores(c *cx, id string, inScope func(f *eng.Fn) bool) int {
	n := 0
	for _, f := range c.allFns() {
		if f.Decl == nil || f.Decl.Recv == nil || !inScope(f) {
			continue
		}
		switch f.Decl.Name.Name {
		case "UnmarshalXML", "UnmarshalXMLAttr", "UnmarshalText":
		default:
			continue
		}
		g := f.Graph()
		type store struct {
			path string
			stmt ast.Stmt
		}
		var stores []store
		for _, w := range f.Writes() {
			p := f.Norm(w.LHS, nil)
			if strings.HasPrefix(p, "recv.") && !strings.ContainsAny(p, "[(") {
				stores = append(stores, store{p, w.Stmt})
			}
		}
		// definitive stores: a plain assignment whose right-hand side does not
		// read the field and that every path to a success return passes (the
		// decoder always sets the field from the element). Lazy
		// initialisation, accumulation and reuse of the receiver's buffer
		// (`if x == nil { x = make(…) }`, `x = append(x, …)`, `x = x[:n]`)
		// are not: they are meant to read the old value.
		{
			var def []store
			for _, st := range stores {
				as, ok := st.stmt.(*ast.AssignStmt)
				if !ok || as.Tok != token.ASSIGN {
					continue
				}
				reads := false
				for _, r := range as.Rhs {
					ast.Inspect(r, func(y ast.Node) bool {
						if e, ok := y.(ast.Expr); ok {
							if p := f.Norm(e, nil); p == st.path || strings.HasPrefix(p, st.path+".") {
								if _, isSel := y.(*ast.SelectorExpr); isSel {
									reads = true
								}
							}
						}
						return !reads
					})
				}
				if reads {
					continue
				}
				all := true
				for _, rs := range g.Returns {
					if g.RetKindOf(rs) == eng.RetError {
						continue
					}
					rp, ok := g.Where(rs)
					if !ok {
						continue
					}
					st := st
					if !g.MustPassBefore(g.Entry(), rp, func(q eng.Point, x ast.Node) bool { return x == ast.Node(st.stmt) }, nil) {
						all = false
					}
				}
				if all {
					def = append(def, st)
				}
			}
			stores = def
		}
		if len(stores) == 0 {
			continue
		}
		covers := func(st, rd string) bool { return st == rd || strings.HasPrefix(rd, st+".") }
		lhs := map[ast.Expr]bool{}
		for _, w := range f.Writes() {
			lhs[ast.Unparen(w.LHS)] = true
		}
		seen := map[ast.Node]bool{}
		f.WalkBody(func(nd ast.Node) bool {
			sel, ok := nd.(*ast.SelectorExpr)
			if !ok || lhs[sel] || seen[sel] {
				return true
			}
			rd := f.Norm(sel, nil)
			if !strings.HasPrefix(rd, "recv.") || strings.ContainsAny(rd, "[(") {
				return true
			}
			// the selector is a prefix of a longer one (recv.A of recv.A.B): the
			// longer one is the read
			if p, ok := g.Parent(sel).(*ast.SelectorExpr); ok && p.X == ast.Expr(sel) {
				if _, isField := f.FieldClass(p); isField {
					return true
				}
			}
			var mine []store
			for _, st := range stores {
				if covers(st.path, rd) {
					mine = append(mine, st)
				}
			}
			if len(mine) == 0 {
				return true
			}
			// the statement that holds the read
			var stmt ast.Node = sel
			for stmt != nil {
				if _, placed := g.Where(stmt); placed {
					break
				}
				stmt = g.Parent(stmt)
			}
			if stmt == nil {
				return true
			}
			for _, st := range mine {
				if ast.Node(st.stmt) == stmt {
					return true // self-update (x = append(x, …), x |= …)
				}
			}
			// address-of (decode target) is a store, not a read
			if u, ok := g.Parent(sel).(*ast.UnaryExpr); ok && u.Op == token.AND {
				return true
			}
			seen[sel] = true
			n++
			rp, _ := g.Where(stmt)
			isStore := func(q eng.Point, x ast.Node) bool {
				for _, st := range mine {
					if ast.Node(st.stmt) == x {
						return true
					}
				}
				// a decode into the field or its record
				found := false
				ast.Inspect(x, func(y ast.Node) bool {
					if u, ok := y.(*ast.UnaryExpr); ok && u.Op == token.AND {
						if p := f.Norm(u.X, nil); covers(p, rd) || p == "recv" {
							found = true
						}
					}
					return !found
				})
				return found
			}
			c.r.Check(id, f, "read of "+rd, "O: a receiver field the decoder stores into is read only after the store (the result does not depend on the receiver's previous content)", sel.Pos(), g.MustPassBefore(g.Entry(), rp, isStore, nil), "a path reaches the read before any store into "+rd+": the decoded value depends on what the variable held before")
			return true
		})
	}
	return n
}
