package rules

import (
	"go/ast"
	"go/token"
	"go/types"
	"reflect"
	"sort"
	"strings"

	"verif/checker/eng"
)

// ownAttrLookups (who-may-call): internal/attr.Get matches an attribute by its
// local name alone, so x:id, x:from, x:sid of a foreign namespace are found as
// well, and found first if they come first. A protocol attribute of a received
// element (the id a reply must repeat, the sender a reply is addressed to, the
// session id a packet belongs to) is the element's OWN, unqualified attribute:
// library code in scope looks it up with attr.Own, whose loop tests the empty
// namespace and the local name.
func ownAttrLookups(c *cx, id string, in func(f *eng.Fn) bool) {
	n := 0
	for _, f := range c.allFns() {
		if f.Body == nil || !in(f) {
			continue
		}
		for _, cl := range f.Calls("internal/attr.Get") {
			n++
			c.r.Check(id, f, "attribute lookup "+f.Norm(cl, nil), "C: received elements are searched for their own (unqualified) attributes: attr.Own, not attr.Get", cl.Pos(), false, "attr.Get matches the attribute in any namespace: a foreign-namespace attribute of the same local name placed before the real one is taken instead")
		}
		for _, cl := range f.Calls("internal/attr.Own") {
			n++
			c.r.Check(id, f, "attribute lookup "+f.Norm(cl, nil), "C: received elements are searched for their own (unqualified) attributes", cl.Pos(), true, "")
		}
	}
	c.r.Floor(id, "attribute lookups in scope", n, 1)
	if oa := c.p.Func("internal/attr", "Own"); oa != nil {
		og := oa.Graph()
		nr := 0
		for _, rs := range og.Returns {
			if s, ok := oa.ConstStr(rs.Results[1]); ok && s == "" {
				continue
			}
			nr++
			c.dom(id, oa, rs, "own attribute value", []string{"eq(rangeval(p0).Name.Space,\"\")", "eq(p1,rangeval(p0).Name.Local)"})
		}
		c.r.Floor(id, "value returns of attr.Own", nr, 1)
	}
}

// idTypFromOwnAttributes (C06.16/C07.8): getIDTyp yields the id and type the
// session correlates responses and replies by. They are the stanza's own,
// unqualified attributes: every value it takes from an attribute of the list
// is taken under the test Name.Space == "" (or comes from attr.Own). With a
// namespace-blind lookup, <iq xml:id="B" id="A" type="result"/> is handed to
// the caller waiting for B, and A's caller never gets its reply.
func idTypFromOwnAttributes(c *cx, id string) {
	f := c.fn(id, "", "getIDTyp")
	if f == nil {
		return
	}
	g := f.Graph()
	n := 0
	for _, cl := range f.Calls("internal/attr.Get") {
		n++
		c.r.Check(id, f, "attribute lookup "+f.Norm(cl, nil), "C: the stanza's id and type are its own (unqualified) attributes: attr.Own, not attr.Get", cl.Pos(), false, "attr.Get matches the attribute in any namespace (xml:id, x:type)")
	}
	for _, cl := range f.Calls("internal/attr.Own") {
		n++
		c.r.Check(id, f, "attribute lookup "+f.Norm(cl, nil), "C: the stanza's id and type are its own (unqualified) attributes", cl.Pos(), true, "")
	}
	for _, w := range f.Writes() {
		if w.RHS == nil {
			continue
		}
		pt, ok := g.Where(w.Stmt)
		if !ok {
			continue
		}
		rhs := f.Norm(w.RHS, &pt)
		if rhs != "rangeval(p0).Value" && rhs != "rangekey(p0)" {
			continue
		}
		n++
		c.dom(id, f, w.Stmt, "value taken from an attribute ("+rhs+")", []string{"eq(rangeval(p0).Name.Space,\"\")"})
	}
	c.r.Floor(id, "attribute values taken in getIDTyp", n, 2)
	// the scan looks at every attribute: it leaves the loop early only when both
	// the id and the type have been found (a `break` at the first namespaced
	// attribute hides an id or type that is written after xml:lang)
	nl := 0
	f.WalkBody(func(nd ast.Node) bool {
		rs, ok := nd.(*ast.RangeStmt)
		if !ok || f.Norm(rs.X, nil) != "p0" {
			return true
		}
		nl++
		_, head, done, okl := g.LoopPoints(rs)
		if !okl {
			c.r.Check(id, f, "attribute scan", "loop placed in the graph", rs.Pos(), false, "range loop not found in the control-flow graph")
			return true
		}
		for _, b := range g.Blocks {
			if !b.Live || int(b.Index) == head.B {
				continue
			}
			for _, sc := range b.Succs {
				if int(sc.Index) != done.B {
					continue
				}
				pt := eng.Point{B: int(b.Index), I: len(b.Nodes)}
				found := g.DominatingAtoms(pt, "lt(-1,*)")
				c.r.Check(id, f, "early exit of the attribute scan", "G: the scan stops before the end of the list only when both id and type were found", rs.Pos(), len(found) >= 2, "the loop is left early without both having been found: attributes after that point are not looked at")
			}
		}
		return true
	})
	c.r.Floor(id, "attribute scans in getIDTyp", nl, 1)
}

// attrGetNotUsed (C05.16 / C06.23 / C07.12 / C13.23): the namespace-blind
// lookup internal/attr.Get has no caller in library code: every protocol
// attribute of a stanza (id, type, to, from, sid, ...) is looked up as the
// element's own attribute (attr.Own, getIDTyp). A transmit helper that finds
// "the id" with attr.Get takes a foreign x:id="" for the stanza's id and
// overwrites it; a reply helper addresses the reply to x:from.
func attrGetNotUsed(c *cx, id string) {
	n := 0
	for _, f := range c.allFns() {
		if f.Body == nil {
			continue
		}
		for _, cl := range f.CallsDeep("internal/attr.Get") {
			c.r.Check(id, f, "namespace-blind attribute lookup", "C: library code looks attributes up by their full name (attr.Own / getIDTyp), never with attr.Get, which matches a local name in any namespace", cl.Pos(), false, "a foreign-namespace attribute of the same local name is taken for the stanza's own")
		}
		n += len(f.Calls("internal/attr.Own")) + len(f.Calls("xmpp.getIDTyp"))
	}
	c.r.Floor(id, "own-attribute lookups in the library", n, 10)
}

// attrTagsDecodeOwnAttributes (C15.27): an encoding/xml field tag `name,attr`
// without a namespace matches an attribute with that local name in ANY
// namespace, the last one winning: decoded by tag alone, <data sid="nosuch"
// x:sid="live" seq="0"> is a packet of the live stream (F131). Every struct
// type of the package that is decoded from a peer's element and has such
// fields decodes through its own UnmarshalXML, which hands encoding/xml a start
// element that a filter function has reduced to the attributes with an empty
// namespace (every append of an attribute in the filter lies behind the test
// Name.Space == "").
func attrTagsDecodeOwnAttributes(c *cx, id, rel string) int {
	pk := c.p.Pkg(rel)
	if pk == nil {
		c.r.Unresolved(id, "package "+rel)
		return 0
	}
	// decode targets of the package's functions
	targets := map[*types.Named]bool{}
	var add func(t types.Type)
	add = func(t types.Type) {
		if p, ok := t.(*types.Pointer); ok {
			t = p.Elem()
		}
		nt, ok := t.(*types.Named)
		if !ok || nt.Obj().Pkg() != pk.Types || targets[nt] {
			return
		}
		st, ok := nt.Underlying().(*types.Struct)
		if !ok {
			return
		}
		targets[nt] = true
		for i := 0; i < st.NumFields(); i++ {
			add(st.Field(i).Type())
		}
	}
	for _, f := range c.allFns() {
		if f.Pkg != pk {
			continue
		}
		for _, callee := range []string{"encoding/xml.Decoder.Decode", "encoding/xml.Decoder.DecodeElement"} {
			for _, cl := range f.Calls(callee) {
				if t := f.Info().TypeOf(cl.Args[0]); t != nil {
					add(t)
				}
			}
		}
	}
	n := 0
	var names []string
	for nt := range targets {
		names = append(names, nt.Obj().Name())
	}
	sort.Strings(names)
	for _, name := range names {
		obj := pk.Types.Scope().Lookup(name)
		if obj == nil {
			continue // a type local to a function (the method-less twin an UnmarshalXML decodes into)
		}
		nt, isNamed := obj.Type().(*types.Named)
		if !isNamed {
			continue
		}
		st := nt.Underlying().(*types.Struct)
		var blind []string
		for i := 0; i < st.NumFields(); i++ {
			tag := reflect.StructTag(st.Tag(i)).Get("xml")
			parts := strings.Split(tag, ",")
			isAttr := false
			for _, p := range parts[1:] {
				if p == "attr" {
					isAttr = true
				}
			}
			if isAttr && !strings.Contains(parts[0], " ") {
				blind = append(blind, st.Field(i).Name())
			}
		}
		if len(blind) == 0 {
			continue
		}
		n++
		um := c.p.Func(rel, "(*"+name+").UnmarshalXML")
		if um == nil {
			c.r.CheckNamed(id, rel+"."+name, "attribute fields "+strings.Join(blind, ", "), "P: a type with namespace-blind attribute tags decodes through its own UnmarshalXML", nt.Obj().Pos(), false, "no UnmarshalXML: x:"+strings.ToLower(blind[0])+" of a foreign namespace is decoded into "+blind[0])
			continue
		}
		g := um.Graph()
		okAll, why := true, ""
		nd := 0
		for _, cl := range um.Calls("encoding/xml.Decoder.DecodeElement") {
			nd++
			// the start element handed on is the result of a filter function
			arg := ast.Unparen(cl.Args[1])
			if u, ok := arg.(*ast.UnaryExpr); ok && u.Op == token.AND {
				arg = ast.Unparen(u.X)
			}
			var filter *eng.Fn
			if v := g.LocalVar(arg); v != nil {
				// (the variable's address is taken for the call: look at its
				// definitions directly; there must be exactly one, a call)
				var defs []*eng.Def
				for _, d := range g.DefsOf(v) {
					if d.Kind == eng.DefPlain && d.RHS != nil {
						defs = append(defs, d)
					}
				}
				if len(defs) == 1 {
					if fc, ok := ast.Unparen(defs[0].RHS).(*ast.CallExpr); ok {
						if fo := calleeFunc(um, fc); fo != nil {
							filter = c.p.FnOf(fo)
						}
					}
				}
			}
			if filter == nil {
				okAll, why = false, "the start element handed to DecodeElement is not the result of a filter function of the module"
				continue
			}
			fg := filter.Graph()
			na := 0
			for _, ap := range filter.Calls("builtin.append") {
				if t := filter.Info().TypeOf(ap); t == nil || eng.TypeStr(t) != "[]encoding/xml.Attr" {
					continue
				}
				na++
				pt, _ := fg.Where(ap)
				if okd, _ := fg.DominatedAny(pt, []string{"eq(*.Name.Space,\"\")"}); !okd {
					okAll, why = false, filter.Short+" keeps an attribute without testing that its namespace is empty"
				}
			}
			if na == 0 {
				okAll, why = false, filter.Short+" does not build an attribute list"
			}
		}
		if nd == 0 {
			okAll, why = false, "UnmarshalXML does not decode through DecodeElement with a filtered start element"
		}
		c.r.Check(id, um, "attribute fields "+strings.Join(blind, ", ")+" of "+name, "P: the element is decoded from its own (unqualified) attributes only", um.Pos(), okAll, why)
	}
	return n
}
