package rules

import (
	"verif/checker/eng"
)

// ownAttrLookups (who-may-call): internal/attr.Get matches an attribute by its
// local name alone, so x:id, x:from, x:sid of a foreign namespace are found as
// well, and found first if they come first. A protocol attribute of a received
// element (the id a reply must repeat, the sender a reply is addressed to, the
// session id a packet belongs to) is the element's OWN, unqualified attribute:
// library code in scope looks it up with attr.Own, whose loop tests the empty
// namespace and the local name.
func ownAttrLookups(c *cx, id string, in func(f *eng.Fn) bool) {
	n := 0
	for _, f := range c.allFns() {
		if f.Body == nil || !in(f) {
			continue
		}
		for _, cl := range f.Calls("internal/attr.Get") {
			n++
			c.r.Check(id, f, "attribute lookup "+f.Norm(cl, nil), "C: received elements are searched for their own (unqualified) attributes: attr.Own, not attr.Get", cl.Pos(), false, "attr.Get matches the attribute in any namespace: a foreign-namespace attribute of the same local name placed before the real one is taken instead")
		}
		for _, cl := range f.Calls("internal/attr.Own") {
			n++
			c.r.Check(id, f, "attribute lookup "+f.Norm(cl, nil), "C: received elements are searched for their own (unqualified) attributes", cl.Pos(), true, "")
		}
	}
	c.r.Floor(id, "attribute lookups in scope", n, 1)
	if oa := c.p.Func("internal/attr", "Own"); oa != nil {
		og := oa.Graph()
		nr := 0
		for _, rs := range og.Returns {
			if s, ok := oa.ConstStr(rs.Results[1]); ok && s == "" {
				continue
			}
			nr++
			c.dom(id, oa, rs, "own attribute value", []string{"eq(rangeval(p0).Name.Space,\"\")", "eq(p1,rangeval(p0).Name.Local)"})
		}
		c.r.Floor(id, "value returns of attr.Own", nr, 1)
	}
}

// idTypFromOwnAttributes (C06.16/C07.8): getIDTyp yields the id and type the
// session correlates responses and replies by. They are the stanza's own,
// unqualified attributes: every value it takes from an attribute of the list
// is taken under the test Name.Space == "" (or comes from attr.Own). With a
// namespace-blind lookup, <iq xml:id="B" id="A" type="result"/> is handed to
// the caller waiting for B, and A's caller never gets its reply.
func idTypFromOwnAttributes(c *cx, id string) {
	f := c.fn(id, "", "getIDTyp")
	if f == nil {
		return
	}
	g := f.Graph()
	n := 0
	for _, cl := range f.Calls("internal/attr.Get") {
		n++
		c.r.Check(id, f, "attribute lookup "+f.Norm(cl, nil), "C: the stanza's id and type are its own (unqualified) attributes: attr.Own, not attr.Get", cl.Pos(), false, "attr.Get matches the attribute in any namespace (xml:id, x:type)")
	}
	for _, cl := range f.Calls("internal/attr.Own") {
		n++
		c.r.Check(id, f, "attribute lookup "+f.Norm(cl, nil), "C: the stanza's id and type are its own (unqualified) attributes", cl.Pos(), true, "")
	}
	for _, w := range f.Writes() {
		if w.RHS == nil {
			continue
		}
		pt, ok := g.Where(w.Stmt)
		if !ok {
			continue
		}
		rhs := f.Norm(w.RHS, &pt)
		if rhs != "rangeval(p0).Value" && rhs != "rangekey(p0)" {
			continue
		}
		n++
		c.dom(id, f, w.Stmt, "value taken from an attribute ("+rhs+")", []string{"eq(rangeval(p0).Name.Space,\"\")"})
	}
	c.r.Floor(id, "attribute values taken in getIDTyp", n, 2)
}

// attrGetNotUsed (C05.16 / C06.23 / C07.12 / C13.23): the namespace-blind
// lookup internal/attr.Get has no caller in library code: every protocol
// attribute of a stanza (id, type, to, from, sid, ...) is looked up as the
// element's own attribute (attr.Own, getIDTyp). A transmit helper that finds
// "the id" with attr.Get takes a foreign x:id="" for the stanza's id and
// overwrites it; a reply helper addresses the reply to x:from.
func attrGetNotUsed(c *cx, id string) {
	n := 0
	for _, f := range c.allFns() {
		if f.Body == nil {
			continue
		}
		for _, cl := range f.CallsDeep("internal/attr.Get") {
			c.r.Check(id, f, "namespace-blind attribute lookup", "C: library code looks attributes up by their full name (attr.Own / getIDTyp), never with attr.Get, which matches a local name in any namespace", cl.Pos(), false, "a foreign-namespace attribute of the same local name is taken for the stanza's own")
		}
		n += len(f.Calls("internal/attr.Own")) + len(f.Calls("xmpp.getIDTyp"))
	}
	c.r.Floor(id, "own-attribute lookups in the library", n, 10)
}
