package rules

import (
	"go/ast"
	"go/types"
	"strings"

	"verif/checker/eng"
)

// sharedBackingNotAppended: no function appends onto a slice that belongs to a
// package-level variable - directly, or through a local that is a value copy of
// a package-level struct (a struct copy shares its slice fields' backing
// arrays) - unless the result goes back into that same package-level
// variable (a registry that grows). Appending to a shared slice with spare
// capacity writes the new element into storage every caller sees: two calls
// overwrite each other's attributes, and concurrent calls race.
// Returns the number of append calls examined in the given packages.
func sharedBackingNotAppended(c *cx, id string, pkgs []string) int {
	in := map[string]bool{}
	for _, p := range pkgs {
		in[p] = true
	}
	n := 0
	for _, f := range c.allFns() {
		if !strings.HasPrefix(f.Pkg.PkgPath, eng.ModPath) {
			continue
		}
		rel := strings.TrimPrefix(strings.TrimPrefix(f.Pkg.PkgPath, eng.ModPath), "/")
		if !in[rel] {
			continue
		}
		g := f.Graph()
		pkgLevel := func(e ast.Expr) *types.Var {
			for {
				switch x := ast.Unparen(e).(type) {
				case *ast.SelectorExpr:
					if _, isPkg := f.Info().Uses[identOf(x.X)].(*types.PkgName); isPkg {
						v, _ := f.Info().Uses[x.Sel].(*types.Var)
						if v != nil && !v.IsField() && v.Pkg() != nil && v.Parent() == v.Pkg().Scope() {
							return v
						}
						return nil
					}
					e = x.X
				case *ast.IndexExpr:
					e = x.X
				case *ast.SliceExpr:
					e = x.X
				case *ast.Ident:
					v, _ := f.Info().Uses[x].(*types.Var)
					if v != nil && !v.IsField() && v.Pkg() != nil && v.Parent() == v.Pkg().Scope() {
						return v
					}
					return nil
				default:
					return nil
				}
			}
		}
		for _, cl := range f.AllCalls() {
			if f.CalleeID(cl) != "builtin.append" || len(cl.Args) == 0 {
				continue
			}
			n++
			pt, ok := g.Where(cl)
			if !ok {
				continue
			}
			dst := cl.Args[0]
			shared := pkgLevel(dst)
			via := ""
			if shared == nil {
				// a selector path rooted at a local struct VALUE that was copied from a package-level variable
				if sel, isSel := ast.Unparen(dst).(*ast.SelectorExpr); isSel {
					if lv := rootLocal(f, sel); lv != nil {
						if _, isPtr := lv.Type().Underlying().(*types.Pointer); !isPtr {
							for _, d := range g.ReachingDefs(lv, pt) {
								if d.Kind == eng.DefPlain && d.RHS != nil {
									if pv := pkgLevel(d.RHS); pv != nil {
										if _, isCall := ast.Unparen(d.RHS).(*ast.CallExpr); !isCall {
											// later writes of the field itself re-point the slice: only flag when none dominates
											shared, via = pv, " through its copy "+lv.Name()
										}
									}
								}
							}
						}
					}
				}
			}
			if shared == nil {
				continue
			}
			// where does the result go?
			back := false
			if as, isAs := g.Parent(cl).(*ast.AssignStmt); isAs && via == "" {
				for i, r := range as.Rhs {
					if ast.Unparen(r) == ast.Expr(cl) && i < len(as.Lhs) && pkgLevel(as.Lhs[i]) == shared {
						back = true
					}
				}
			}
			if via != "" {
				// the copy's slice field may have been replaced by a fresh slice before the append
				if sel, isSel := ast.Unparen(dst).(*ast.SelectorExpr); isSel {
					cls, _ := f.FieldClass(sel)
					for _, w := range f.FieldWrites(cls) {
						if w.RHS == nil {
							continue
						}
						ws := w.Stmt
						if wp, okw := g.Where(ws); okw && g.MustPassBefore(g.Entry(), pt, func(q eng.Point, nd ast.Node) bool { return nd == ws }, nil) {
							if ok2, _ := freshSlice(f, w.RHS, wp, map[*eng.Def]bool{}); ok2 {
								back = true
							}
						}
					}
				}
			}
			if via != "" && !back {
				if sel, isSel := ast.Unparen(dst).(*ast.SelectorExpr); isSel {
					if _, direct := ast.Unparen(sel.X).(*ast.Ident); direct && noSpareCapacity(f, shared, sel.Sel.Name) {
						continue // the shared slice is nil or full: append allocates
					}
				}
			}
			c.r.Check(id, f, "append onto a slice of package-level "+shared.Name(), "E-alias: elements are appended only to storage the call owns; a package-level slice grows only in place (result stored back)", cl.Pos(), back, "append writes into the backing array of package-level "+shared.Name()+via+": every call shares it")
		}
	}
	return n
}

func identOf(e ast.Expr) *ast.Ident {
	idn, _ := ast.Unparen(e).(*ast.Ident)
	return idn
}

// noSpareCapacity: the package-level struct variable v is initialised once by a
// composite literal (and never assigned in its package) whose field fld is
// absent, nil, a composite literal or a two-argument make: len == cap, so an
// append through a copy of v allocates a new array.
func noSpareCapacity(f *eng.Fn, v *types.Var, fld string) bool {
	for _, pkg := range f.Prog.Pkgs {
		if pkg.Types != v.Pkg() {
			continue
		}
		// never assigned
		assigned := false
		var init ast.Expr
		for _, file := range pkg.Syntax {
			ast.Inspect(file, func(n ast.Node) bool {
				switch x := n.(type) {
				case *ast.AssignStmt:
					for _, l := range x.Lhs {
						e := l
						for {
							switch y := ast.Unparen(e).(type) {
							case *ast.SelectorExpr:
								e = y.X
								continue
							case *ast.IndexExpr:
								e = y.X
								continue
							case *ast.Ident:
								if pkg.TypesInfo.Uses[y] == types.Object(v) {
									assigned = true
								}
							}
							break
						}
					}
				case *ast.UnaryExpr:
					if idn, ok := ast.Unparen(x.X).(*ast.Ident); ok && pkg.TypesInfo.Uses[idn] == types.Object(v) {
						assigned = true // address taken
					}
				case *ast.ValueSpec:
					for i, nm := range x.Names {
						if pkg.TypesInfo.Defs[nm] == types.Object(v) && i < len(x.Values) {
							init = x.Values[i]
						}
					}
				}
				return true
			})
		}
		if assigned {
			return false
		}
		if init == nil {
			return true // zero value: nil slices
		}
		cl, ok := ast.Unparen(init).(*ast.CompositeLit)
		if !ok {
			return false
		}
		val := structLitField(cl, fld)
		if val == nil {
			return true
		}
		switch x := ast.Unparen(val).(type) {
		case *ast.CompositeLit:
			return true
		case *ast.Ident:
			return x.Name == "nil"
		case *ast.CallExpr:
			if idn, ok := ast.Unparen(x.Fun).(*ast.Ident); ok && idn.Name == "make" && len(x.Args) == 2 {
				return true
			}
		}
		return false
	}
	return false
}
