package rules

import (
	"go/ast"
	"go/token"
	"go/types"
	"golang.org/x/tools/go/types/typeutil"
	"sort"
	"strings"

	"verif/checker/eng"
)

func init() {
	Registry["C15"] = Rule{
		Meta: eng.Meta{
			Explanation: "Control-structure rules for in-band bytestreams (the byte-delivery equation itself is not decided): Open returns a connection only behind a nil-error inspection of the peer's reply (C15.1); handlePayload's refusal table maps unknown sid / out-of-sequence / buffer overflow / undecodable data to item-not-found / unexpected-request / resource-constraint / bad-request, each refusal returns without mutating the receive buffer, the buffer is written only behind the three passing facts, the acknowledgement is written for IQ carriers only (C15.2); all sequence counters are uint16, change only by ++, the writer's only after a successful send (C15.3); lock discipline of the stream, listener and expectation tables and of the read/write buffers by must-lockset dataflow (C15.4); channel rules for the ibb channel classes (C15.5 = C06.3/C06.4); close paths flush, close the encoder, send the close request and wake readers in that order, remove the stream, are guarded by the closed flag, and a close for an unknown sid is answered item-not-found (C15.6); newConn chains bufio(blockSize) -> base64 -> stanzaWriter, derives 'acked' from the stanza attribute and the peer from the role (C15.7).",
			NotDecided:  "exactly-once in-order byte delivery, chunking and base64 boundary behaviour, end-of-file draining: run-time data flow.",
			Trusted:     trustedCommon,
		},
		Run: runC15,
	}
}

func runC15(p *eng.Prog, r *eng.Report, tier string) {
	c := &cx{p, r, tier}
	r19StrictDataDecoding(c, "C15.34")
	r19ExpectKeysAgree(c, "C15.35")
	r17RefusalTableComplete(c, "C15.33")
	r17ListenersUnderTheirOwnAddress(c, "C15.32")
	// C15.31 (= C06.6): the answer to <close/> is released on every path (an unreleased response blocks the
	// serve loop: later streams on the session never see their data or end-of-file)
	respRelease(c, "C15.31", 1)
	// C15.26 (= C09.17 / C10.10): no cycle in the lock-order graph: a deadlock between a
	// writer and Close, or between the serve loop and a requester, ends every guarantee of this property
	lockOrder(c, "C15.26")
	c15CarrierTypes(c, "C15.24")
	c15HandlerEncoderStays(c, "C15.28")
	c15MessageCarrierDecodedWhole(c, "C15.29")
	c15OpenIsASetRequest(c, "C15.30")
	c.r.Floor("C15.27", "decode targets with namespace-blind attribute tags in ibb", attrTagsDecodeOwnAttributes(c, "C15.27", "ibb"), 2)
	c.r.Floor("C15.25", "blocking channel operations in ibb", lockHeldAcrossChannelOp(c, "C15.25", "ibb."), 3)
	c15Open(c)
	c15Payload(c)
	c15Seq(c)
	// C15.4 lock discipline
	lockDiscipline(c, "C15.4", "ibb.Handler.streams", "ibb.Handler.mu", nil, 5)
	lockDiscipline(c, "C15.4", "ibb.Handler.l", "ibb.Handler.lM", nil, 5)
	lockDiscipline(c, "C15.4", "ibb.Listener.expected", "ibb.Listener.eLock", nil, 5)
	c15BufLocks(c)
	// C15.5 channel rules restricted to the ibb package
	var scope []*eng.Fn
	why := map[*eng.Fn]string{}
	all, w := serveScope(c)
	for _, f := range all {
		if strings.HasPrefix(f.Short, "ibb.") {
			scope = append(scope, f)
			why[f] = w[f]
		}
	}
	chanRulesFiltered(c, "C15.5", scope, why, "ibb.")
	c15Close(c)
	waitBoundedByDeadline(c, "C15.18", "ibb", 1)
	c15EveryPacketHandled(c, "C15.19")
	c15RoutingEntryNotReplaced(c, "C15.20")
	c15OnlyOwnRouteWithdrawn(c, "C15.21")
	c15WakeUpOnlyOpenReaders(c, "C15.22")
	c15EverySentPacketCounted(c, "C15.23")
	c15OpenRegistered(c)
	c15BlockBounded(c)
	// C15.2 the session id that selects the stream is the payload's own sid
	ownAttrLookups(c, "C15.2", func(f *eng.Fn) bool { return strings.HasPrefix(f.Short, "ibb.") })
	c15NewConn(c)
	// C15.8 no lock held across an acknowledged write is taken by the handler
	serveLockWait(c, "C15.8")
	// C15.9 a cancelled Expect removes only its own registration
	c15ExpectOwnEntry(c)
	// C15.10 a stream belongs to its two parties, not to whoever knows the sid
	c15SenderIsPeer(c)
	// C15.11 the peer's close is answered whatever the local flush says
	c15CloseAnswered(c)
	// C15.15 a packet whose attribute values do not fit their types (seq,
	// block-size: strconv errors inside Decode) is the sender's mistake: the
	// handlers do not return the decoder's error as it is (a handler error ends
	// the whole XMPP session), it goes through a refusal that answers with a
	// stanza error
	{
		n := 0
		for _, name := range []string{"(*Handler).HandleIQ", "(*Handler).HandleMessage"} {
			f := c.fn("C15.15", "ibb", name)
			if f == nil {
				continue
			}
			g := f.Graph()
			for _, rs := range g.Returns {
				res := retResults(f, rs)
				if len(res) != 1 {
					continue
				}
				pt, _ := g.Where(rs)
				nrm := f.Norm(res[0], &pt)
				if !eng.Glob("encoding/xml.Decoder.Decode[*](*)", nrm) && !eng.Glob("encoding/xml.Decoder.DecodeElement[*](*)", nrm) {
					if strings.Contains(nrm, "encoding/xml.Decoder.Decode") {
						n++
						// handed to a helper: the helper answers numeric errors with a stanza error
						okh := false
						if cl, ok := ast.Unparen(res[0]).(*ast.CallExpr); ok {
							if fo, ok := typeutil.Callee(f.Info(), cl).(*types.Func); ok {
								if h := c.p.FnOf(fo.Origin()); h != nil && h.Body != nil {
									okh = h.ContainsCall(h.Body, "errors.As") != nil && (len(h.CallsDeep("stanza.IQ.Error")) > 0 || len(h.CallsDeep("ibb.errorResponder.Error")) > 0)
								}
							}
						}
						c.r.Check("C15.15", f, "decoding error of a packet handed to a refusal", "K: the helper that receives the decoder's error tells value errors apart (errors.As) and answers them with a stanza error", rs.Pos(), okh, "the helper does not answer value errors with a stanza error")
					}
					continue
				}
				n++
				c.r.Check("C15.15", f, "decoding error of a packet returned from the handler", "K: the error of decoding a peer's packet is not returned as it is from the handler", rs.Pos(), false, "a packet with seq=\"65536\" ends the whole XMPP session with a stream error instead of being refused with bad-request")
			}
		}
		c.r.Floor("C15.15", "returns of decoding errors in the ibb handlers", n, 2)
	}
	// C15.17 a session id that is in use cannot be opened again, and a stream
	// the peer was told about is routable: in handleOpen the acceptance
	// (iq.Result), the hand-over of the new stream to the listener and the
	// withdrawal of its route all lie behind the edge on which addStream
	// reported that it registered the stream under a free id (F120: an
	// unconditional registration replaces a live stream; F129: a registration
	// after the answer lets a local Open take the id the peer was promised).
	// That addStream stores only behind a miss of the key is C15.20.
	if f := c.fn("C15.17", "ibb", "handleOpen"); f != nil {
		succ := []string{"ibb.Handler.addStream[*](*)"}
		c.r.Floor("C15.17", "registrations in handleOpen", len(f.Calls("ibb.Handler.addStream")), 1)
		n := 0
		for _, cl := range f.Calls("stanza.IQ.Result") {
			n++
			c.domAny("C15.17", f, cl, "open request accepted", succ)
		}
		c.r.Floor("C15.17", "acceptances in handleOpen", n, 1)
		n = 0
		for _, op := range chanOps(f) {
			if op.kind != "send" {
				continue
			}
			n++
			c.domAny("C15.17", f, op.node, "stream handed to the listener", succ)
		}
		c.r.Floor("C15.17", "hand-overs in handleOpen", n, 2)
		for _, cl := range f.Calls("ibb.Handler.rmStream") {
			c.domAny("C15.17", f, cl, "route withdrawn", succ)
		}
	}
	// C15.16 zero or a negative read buffer limit means "unlimited" (documented,
	// and what handlePayload's size test implements): SetReadBuffer raises a
	// limit to the block size only if it is positive
	if f := c.fn("C15.16", "ibb", "(*Conn).SetReadBuffer"); f != nil {
		n := 0
		for _, w := range f.Writes() {
			if w.RHS == nil {
				continue
			}
			pt, _ := f.Graph().Where(w.Stmt)
			if !strings.Contains(f.Norm(w.RHS, &pt), "bufio.Writer.Size[") {
				continue
			}
			if k, isField := f.FieldClass(w.LHS); isField && k != "ibb.Conn.maxBufSize" {
				continue
			}
			n++
			c.domAny("C15.16", f, w.Stmt, "limit raised to the block size", []string{"lt(0,p0)", "!lt(p0,1)", "lt(0,local:p0<int>)", "!lt(local:p0<int>,1)"})
		}
		c.r.Floor("C15.16", "clamps in SetReadBuffer", n, 1)
	}
	// C15.12 the peer check rests on address equality
	jidEqualRule(c, "C15.12")
	// C15.13 every packet is decoded into a fresh zero value: encoding/xml only
	// assigns the attributes that are present, so a pooled or reused target
	// keeps the previous packet's sid and seq for a packet that lacks them
	for _, name := range []string{"(*Handler).HandleIQ", "(*Handler).HandleMessage"} {
		if f := c.fn("C15.13", "ibb", name); f != nil {
			freshDecodeTargets(c, "C15.13", f, 1)
		}
	}
}

// c15SenderIsPeer: the routing table is keyed by the sid alone. On the serve
// goroutine, every use of a stream that was found by a lookup in
// Handler.streams (a method call on it, a read or write of its fields) is
// dominated by a comparison of the stanza's sender with the stream's peer
// (stanzaWriter.to), directly or through a predicate whose body is that
// comparison. Otherwise a third party that knows the sid injects bytes into,
// desynchronises or closes somebody else's stream.
func c15SenderIsPeer(c *cx) {
	id := "C15.10"
	// predicates of Conn that compare their argument with the peer address
	preds := map[string]bool{}
	for _, f := range c.allFns() {
		if !strings.HasPrefix(f.Short, "ibb.(*Conn).") || f.Body == nil || f.Sig().Params().Len() != 1 || f.Sig().Results().Len() != 1 || eng.TypeStr(f.Sig().Results().At(0).Type()) != "bool" {
			continue
		}
		for _, cl := range f.Calls("jid.JID.Equal") {
			sel, ok := ast.Unparen(cl.Fun).(*ast.SelectorExpr)
			if !ok || len(cl.Args) != 1 {
				continue
			}
			a, b := f.Norm(sel.X, nil), f.Norm(cl.Args[0], nil)
			if (a == "p0" && b == "recv.stanzaWriter.to") || (b == "p0" && a == "recv.stanzaWriter.to") {
				preds[strings.Replace(strings.Replace(f.Short, "(*", "", 1), ")", "", 1)] = true
			}
		}
	}
	n := 0
	for _, name := range []string{"handlePayload", "(*Handler).HandleIQ", "(*Handler).HandleMessage"} {
		f := c.fn(id, "ibb", name)
		if f == nil {
			continue
		}
		g := f.Graph()
		for _, d := range g.AllDefs() {
			if d.Kind != eng.DefCommaOk || d.Index != 0 || d.RHS == nil {
				continue
			}
			ix, ok := ast.Unparen(d.RHS).(*ast.IndexExpr)
			if !ok {
				continue
			}
			if k, _ := f.FieldClass(ix.X); k != "ibb.Handler.streams" {
				continue
			}
			conn := d.Var
			// uses of conn reached by this lookup
			f.WalkBody(func(nd ast.Node) bool {
				sel, ok := nd.(*ast.SelectorExpr)
				if !ok {
					return true
				}
				idn, ok := ast.Unparen(sel.X).(*ast.Ident)
				if !ok || f.Info().Uses[idn] != types.Object(conn) {
					return true
				}
				pt, okp := g.Where(sel)
				if !okp || g.UniqueDef(conn, pt) != d {
					return true
				}
				// the guard itself
				if preds["ibb.Conn."+sel.Sel.Name] {
					return true
				}
				n++
				pats := []string{"jid.JID.Equal[*](*.stanzaWriter.to)", "jid.JID.Equal[*.stanzaWriter.to](*)"}
				for p := range preds {
					pats = append(pats, p+"[*](*)")
				}
				sort.Strings(pats)
				okd, why := g.DominatedAny(pt, pats)
				c.r.Check(id, f, "use of the stream found by sid: "+sel.Sel.Name, "G: a stream found by its sid is used only after the stanza's sender was compared with the stream's peer", sel.Pos(), okd, why)
				return true
			})
		}
	}
	c.r.Floor(id, "uses of streams found by sid on the serve goroutine", n, 3)
}

// c15CloseAnswered: the error of closeNoNotify (flushing what was buffered
// locally: it carries the sticky error of an earlier refused packet) never
// becomes the return value of the handler: the peer's close is answered and
// the session is not ended because of it.
func c15CloseAnswered(c *cx) {
	id := "C15.11"
	f := c.fn(id, "ibb", "(*Handler).HandleIQ")
	if f == nil {
		return
	}
	g := f.Graph()
	n := 0
	for _, cl := range f.Calls("ibb.Conn.closeNoNotify") {
		n++
		cp, _ := g.Where(cl)
		bad := ""
		// the variable the result is assigned to, if any
		for _, d := range g.AllDefs() {
			if d.RHS == nil || ast.Unparen(d.RHS) != ast.Expr(cl) {
				continue
			}
			for _, rs := range g.Returns {
				rp, _ := g.Where(rs)
				for _, r := range rs.Results {
					if idn, ok := ast.Unparen(r).(*ast.Ident); ok && f.Info().Uses[idn] == types.Object(d.Var) {
						for _, rd := range g.ReachingDefs(d.Var, rp) {
							if rd == d {
								bad = "the result of closeNoNotify is returned at " + c.p.Pos(rs.Pos())
							}
						}
					}
				}
			}
		}
		if rs, isRet := g.Parent(cl).(*ast.ReturnStmt); isRet {
			bad = "the result of closeNoNotify is returned at " + c.p.Pos(rs.Pos())
		}
		isResult := func(q eng.Point, nd ast.Node) bool { return f.ContainsCall(nd, "stanza.IQ.Result") != nil }
		for _, rs := range g.Returns {
			rp, _ := g.Where(rs)
			if bad == "" && g.Reachable(g.After(cp), rp, nil, isResult) {
				bad = "the return at " + c.p.Pos(rs.Pos()) + " is reachable after closeNoNotify without the result having been written"
			}
		}
		c.r.Check(id, f, "close answered after closeNoNotify", "O: after the stream was closed locally every path writes the result of the close request; the local flush error is not the handler's error", cl.Pos(), bad == "", bad)
	}
	c.r.Floor(id, "calls of closeNoNotify in HandleIQ", n, 1)
}

// c15ExpectOwnEntry: Expect registers an entry, releases the table lock and
// waits; a second Expect for the same peer and sid takes the registration over
// (documented). When the first call gives up it may only remove the entry if
// it is still its own: every delete from Listener.expected that follows a
// release of the table lock after the store is dominated, since the lock was
// taken again, by a fresh comma-ok lookup of the entry and by a comparison
// that involves the looked-up entry. (An unconditional delete removes the
// successor's registration: the peer's open is then accepted but handed to
// nobody.)
func c15ExpectOwnEntry(c *cx) { c15ExpectOwnEntryAs(c, "C15.9") }

func c15ExpectOwnEntryAs(c *cx, id string) {
	n := 0
	for _, f := range c.allFns() {
		if !strings.HasPrefix(f.Short, "ibb.") || f.Body == nil {
			continue
		}
		g := f.Graph()
		var stores, dels []eng.MapUpdate
		for _, mu := range f.MapUpdates() {
			if k, ok := f.FieldClass(mu.Map); !ok || k != "ibb.Listener.expected" {
				continue
			}
			if mu.Delete {
				dels = append(dels, mu)
			} else {
				stores = append(stores, mu)
			}
		}
		if len(stores) == 0 || len(dels) == 0 {
			continue
		}
		isUnlock := func(q eng.Point, nd ast.Node) bool {
			found := false
			ast.Inspect(nd, func(x ast.Node) bool {
				if cl, ok := x.(*ast.CallExpr); ok {
					if op, cls, _ := f.LockOp(cl); op < 0 && cls == "ibb.Listener.eLock" {
						found = true
					}
				}
				return !found
			})
			return found
		}
		for _, d := range dels {
			dp, ok := g.Where(d.Node)
			if !ok {
				continue
			}
			// was the lock released between a store and this delete?
			released := false
			for _, st := range stores {
				sp, ok := g.Where(st.Node)
				if ok && g.Reachable(g.After(sp), dp, nil, nil) && !g.Reachable(g.After(sp), dp, nil, isUnlock) {
					released = true
				}
			}
			if !released {
				continue
			}
			n++
			// the last acquisition before the delete
			var from eng.Point
			have := false
			for _, cl := range f.AllCalls() {
				if op, cls, _ := f.LockOp(cl); op > 0 && cls == "ibb.Listener.eLock" {
					lp, ok := g.Where(cl)
					if ok && g.Reachable(g.After(lp), dp, nil, isUnlock) {
						from, have = g.After(lp), true
					}
				}
			}
			okd := have && g.DominatedFrom(from, dp, []string{"commaok(recv.expected[*])"}) && g.DominatedFrom(from, dp, []string{"eq(*recv.expected[*]*,*)", "eq(*,*recv.expected[*]*)"})
			c.r.Check(id, f, "delete from Listener.expected after the lock was released", "G: after waiting, the entry is removed only if a fresh lookup under the lock finds it and it is still the caller's own (identity comparison with the looked-up entry)", d.Node.Pos(), okd, "the delete is not guarded by a fresh lookup and an identity comparison since the lock was re-acquired: a second Expect that took the registration over loses its entry")
		}
	}
	c.r.Floor(id, "deletes from Listener.expected after a release of the table lock", n, 1)
}

func c15Open(c *cx) {
	id := "C15.1"
	f := c.fn(id, "ibb", "open")
	if f == nil {
		return
	}
	g := f.Graph()
	n := 0
	for _, rs := range g.Returns {
		if g.RetKindOf(rs) != eng.RetSuccess {
			continue
		}
		n++
		c.domAny(id, f, rs, "success return", []string{
			"eq(xmpp.Session.UnmarshalIQ*[p3](*),nil)",
			"eq(stanza.UnmarshalIQError(*)#1,nil)",
		})
	}
	c.r.Floor(id, "success returns of open", n, 1)
	// (an earlier version of this rule demanded that the stream be registered
	// only AFTER the peer accepted; that is the late-registration defect F80:
	// the acceptor's first packet can overtake the registration. The order is
	// now decided by c15OpenRegistered.)
	errDiscipline(c, id, []*eng.Fn{f}, nil, false)
}

func c15Payload(c *cx) {
	id := "C15.2"
	f := c.fn(id, "ibb", "handlePayload")
	if f == nil {
		return
	}
	g := f.Graph()
	// refusal arms: condition edge -> stanza condition
	table := []struct{ what, edge, cond string }{
		{"unknown sid", "*!commaok(p0.streams[p*.SID])*", "stanza.ItemNotFound"},
		{"out of sequence", "!eq(*.seq,p*.Seq)", "stanza.UnexpectedRequest"},
		{"buffer overflow", "and(lt(0,*.maxBufSize) & lt(*.maxBufSize,*))", "stanza.ResourceConstraint"},
		{"undecodable data", "!eq(encoding/base64.Encoding.Decode[*](*)#1,nil)", "stanza.BadRequest"},
	}
	mutatesBuf := func(nd ast.Node) bool {
		bad := false
		ast.Inspect(nd, func(x ast.Node) bool {
			if cl, ok := x.(*ast.CallExpr); ok {
				if sel, ok := ast.Unparen(cl.Fun).(*ast.SelectorExpr); ok {
					if k, _ := f.FieldClass(sel.X); k == "ibb.Conn.readBuf" {
						switch sel.Sel.Name {
						case "Reset", "Truncate", "Write", "WriteString", "WriteByte", "ReadFrom", "Next", "Read", "Grow":
							bad = true
						}
					}
				}
			}
			return true
		})
		return bad
	}
	for _, t := range table {
		var edges []eng.CondEdge
		for _, ce := range g.CondEdges() {
			for _, a := range ce.Atoms {
				if eng.Glob(t.edge, a.S) || (t.what == "undecodable data" && eng.Glob("errors.As(*)", a.S)) || (strings.HasPrefix(t.edge, "and(") && strings.Contains(a.S, ".maxBufSize") && !strings.HasPrefix(a.S, "!") && !strings.HasPrefix(a.S, "or(")) {
					edges = append(edges, ce)
					break
				}
			}
		}
		// the overflow test is a conjunction: both atoms sit on the same (true) edge
		if strings.HasPrefix(t.edge, "and(") {
			var keep []eng.CondEdge
			for _, ce := range edges {
				nm := 0
				for _, a := range ce.Atoms {
					if strings.Contains(a.S, ".maxBufSize") && strings.HasPrefix(a.S, "lt(") {
						nm++
					}
				}
				if nm >= 2 {
					keep = append(keep, ce)
				}
			}
			edges = keep
		}
		if !c.r.Check(id, f, "refusal arm: "+t.what, "the refusal condition is tested", f.Pos(), len(edges) >= 1, "no edge for "+t.edge) {
			continue
		}
		for _, ce := range edges {
			okCond, okNoMut, okRet := false, true, false
			for _, nd := range g.ReachableNodes(g.EdgeTarget(ce.E), nil) {
				if cl := f.ContainsCall(nd, "ibb.errorResponder.Error"); cl != nil {
					if lit, ok := ast.Unparen(cl.Args[0]).(*ast.CompositeLit); ok {
						if v := structLitField(lit, "Condition"); v != nil && f.Norm(v, nil) == t.cond {
							okCond = true
						}
					}
				}
				if mutatesBuf(nd) {
					okNoMut = false
				}
				if _, ok := nd.(*ast.ReturnStmt); ok {
					okRet = true
					break
				}
			}
			c.r.Check(id, f, "refusal arm: "+t.what+" -> "+t.cond, "K+G: the refusal answers with the corresponding stanza error and returns without touching the receive buffer", f.Pos(), okCond && okNoMut && okRet, "arm does not write "+t.cond+", or mutates readBuf, or does not return")
			// ... and never disturbs the stream: nothing reachable from the
			// refusal edge calls a method of the Conn (closeNoNotify, Close),
			// withdraws its route or stores into one of its fields. The stream
			// of a packet that was refused goes on as if the packet had not come.
			disturbs := ""
			for _, nd := range g.ReachableNodes(g.EdgeTarget(ce.E), nil) {
				ast.Inspect(nd, func(x ast.Node) bool {
					if cl, ok := x.(*ast.CallExpr); ok {
						if cid := f.CalleeID(cl); strings.HasPrefix(cid, "ibb.Conn.") || cid == "ibb.Handler.rmStream" {
							disturbs = cid + " at " + f.Prog.Pos(cl.Pos())
						}
					}
					return true
				})
				if as, ok := nd.(*ast.AssignStmt); ok {
					for _, l := range as.Lhs {
						if k, isF := f.FieldClass(l); isF && strings.HasPrefix(k, "ibb.Conn.") {
							disturbs = "store into " + k + " at " + f.Prog.Pos(as.Pos())
						}
					}
				}
				if ids, ok := nd.(*ast.IncDecStmt); ok {
					if k, isF := f.FieldClass(ids.X); isF && strings.HasPrefix(k, "ibb.Conn.") {
						disturbs = "store into " + k + " at " + f.Prog.Pos(ids.Pos())
					}
				}
			}
			if t.what != "unknown sid" {
				c.r.Check(id, f, "refusal arm: "+t.what+" leaves the stream alone", "G: nothing reachable from the refusal edge calls a method of the Conn, withdraws its route or stores into its fields", f.Pos(), disturbs == "", disturbs+": one injected bad packet ends or corrupts a live transfer")
			}
		}
	}
	// data reaches the buffer only behind the passing facts
	n := 0
	for _, cl := range f.AllCalls() {
		sel, ok := ast.Unparen(cl.Fun).(*ast.SelectorExpr)
		if !ok || (sel.Sel.Name != "ReadFrom" && sel.Sel.Name != "Write" && sel.Sel.Name != "WriteString") {
			continue
		}
		if k, _ := f.FieldClass(sel.X); k != "ibb.Conn.readBuf" {
			continue
		}
		n++
		// a refused packet leaves nothing behind: the buffer is not filled by a
		// streaming decoder (what decoded before a corruption would stay in it)
		streaming := false
		if sel.Sel.Name == "ReadFrom" && len(cl.Args) == 1 {
			pt0, _ := g.Where(cl)
			if strings.Contains(f.Norm(cl.Args[0], &pt0), "base64.NewDecoder") {
				streaming = true
			}
		}
		c.r.Check(id, f, "receive buffer filled with completely decoded data", "S: the bytes of a packet reach the receive buffer only after the whole packet was decoded", cl.Pos(), !streaming, "the buffer is filled through a streaming base64 decoder: the bytes that decoded before a corruption are delivered although the packet is refused")
		c.dom(id, f, cl, "write into the receive buffer", []string{"commaok(p0.streams[p*.SID])", "eq(*.seq,p*.Seq)"})
		c.domAny(id, f, cl, "write into the receive buffer [size test]", []string{"or(!lt(0,*.maxBufSize) | !lt(*.maxBufSize,*))"})
		// ... and the size that was tested is the size that is written (an upper
		// bound such as DecodedLen over-counts padded groups and refuses a packet
		// that fits exactly)
		if len(cl.Args) == 1 {
			wpt, _ := g.Where(cl)
			a := f.Norm(cl.Args[0], &wpt)
			c.domAny(id, f, cl, "write into the receive buffer [tested size is the written size]", []string{
				"or(!lt(0,*.maxBufSize) | !lt(*.maxBufSize,(bytes.Buffer.Len[*]() + builtin.len(" + a + "))))",
				"or(!lt(0,*.maxBufSize) | !lt(*.maxBufSize,(builtin.len(" + a + ") + bytes.Buffer.Len[*]())))",
			})
		}
		ls, _ := g.Locks(nil).AtNode(cl)
		c.r.Check(id, f, "write into the receive buffer [lock]", "L: the receive buffer is written under readLock", cl.Pos(), ls.Has("ibb.Conn.readLock", true), "lockset "+ls.String())
	}
	c.r.Floor(id, "buffer writes in handlePayload", n, 1)
	c.r.Ceil(id, "buffer writes in handlePayload", n, 1)
	// the acknowledgement only for IQ carriers
	for _, cl := range f.Calls("stanza.IQ.Result") {
		c.dom(id, f, cl, "acknowledgement", []string{"commaok(p1.(stanza.IQ))"})
	}
}

func c15Seq(c *cx) {
	id := "C15.3"
	for _, k := range []string{"ibb.Conn.seq", "ibb.stanzaWriter.seq"} {
		n := 0
		for _, f := range c.allFns() {
			for _, w := range f.FieldWrites(k) {
				n++
				c.r.Check(id, f, "write to "+k, "W: the sequence counter changes only by ++ (wraps modulo 65536 by its uint16 type)", w.Stmt.Pos(), w.Tok.String() == "++", "written with "+w.Tok.String())
				if k == "ibb.stanzaWriter.seq" {
					g := f.Graph()
					pt, _ := g.Where(w.Stmt)
					okd, _ := g.DominatedAny(pt, []string{"eq(local:*<error>,nil)"})
					c.r.Check(id, f, "sender's counter advanced only after a successful send", "G: seq++ is dominated by err == nil of the send", w.Stmt.Pos(), okd, "seq++ reachable after a failed send")
				}
				if k == "ibb.Conn.seq" {
					c.dom(id, f, w.Stmt, "receiver's counter advanced only for the expected packet", []string{"eq(*.seq,p*.Seq)"})
					// ... and only for a packet that is ACCEPTED: every refusal
					// (size, undecodable data) comes before the counter moves,
					// otherwise a refused packet kills the stream for the real sender
					c.domAny(id, f, w.Stmt, "receiver's counter advanced only after the size test passed", []string{"or(!lt(0,*.maxBufSize) | !lt(*.maxBufSize,*))"})
					c.domAny(id, f, w.Stmt, "receiver's counter advanced only after the data was decoded", []string{"eq(encoding/base64.Encoding.Decode[*](*)#1,nil)", "!errors.As(*)", "eq(bytes.Buffer.ReadFrom[*](*)#1,nil)"})
				}
			}
		}
		c.r.Floor(id, "writes to "+k, n, 1)
	}
	// types
	if pk := c.p.Pkg("ibb"); pk != nil {
		for _, tn := range [][2]string{{"Conn", "seq"}, {"stanzaWriter", "seq"}, {"dataPayload", "Seq"}} {
			okt := false
			if o := pk.Types.Scope().Lookup(tn[0]); o != nil {
				if st, ok := o.Type().Underlying().(interface {
					NumFields() int
				}); ok {
					_ = st
				}
				s := o.Type().Underlying().String()
				okt = strings.Contains(s, tn[1]+" uint16")
			}
			c.r.CheckNamed(id, "ibb."+tn[0], "type of "+tn[1], "types: the counter is a uint16 (numbered consecutively modulo 65536)", 0, okt, "field is not uint16")
		}
	}
}

func c15BufLocks(c *cx) {
	id := "C15.4"
	mut := map[string]map[string]bool{
		"ibb.Conn.readBuf":  {"Read": true, "ReadFrom": true, "Write": true, "Reset": true, "Len": true, "Truncate": true, "Next": true},
		"ibb.Conn.writeBuf": {"Write": true, "Flush": true, "WriteString": true, "Reset": true},
	}
	lock := map[string]string{"ibb.Conn.readBuf": "ibb.Conn.readLock", "ibb.Conn.writeBuf": "ibb.Conn.writeLock"}
	n := 0
	for _, f := range c.allFns() {
		if !strings.HasPrefix(f.Short, "ibb.") || f.Short == "ibb.newConn" {
			continue
		}
		for _, cl := range f.AllCalls() {
			sel, ok := ast.Unparen(cl.Fun).(*ast.SelectorExpr)
			if !ok {
				continue
			}
			k, _ := f.FieldClass(sel.X)
			if m, ok := mut[k]; !ok || !m[sel.Sel.Name] {
				continue
			}
			n++
			ls, _ := f.Graph().Locks(nil).AtNode(cl)
			where := ""
			if pt, ok := f.Graph().Where(cl); ok {
				where = strings.Join(f.Graph().FactsAt(pt), ";")
			}
			c.r.Check(id, f, k+"."+sel.Sel.Name+" ["+where+"]", "L: the buffer is used under "+lock[k], cl.Pos(), ls.Has(lock[k], true), "lockset "+ls.String())
		}
	}
	c.r.Floor(id, "buffer operations", n, 5)
}

// c15OpenRegistered: the initiator's stream is in the handler's table before
// the open request goes out (the acceptor may send data as soon as it has
// accepted; a packet for a stream that is not registered yet is refused with
// item-not-found and the stream is dead), and it is taken out again when the
// request fails.
func c15OpenRegistered(c *cx) {
	id := "C15.1"
	f := c.fn(id, "ibb", "open")
	if f == nil {
		return
	}
	g := f.Graph()
	isAdd := func(q eng.Point, nd ast.Node) bool { return f.ContainsCall(nd, "ibb.Handler.addStream") != nil }
	isRm := func(q eng.Point, nd ast.Node) bool { return f.ContainsCall(nd, "ibb.Handler.rmStream") != nil }
	n := 0
	for _, cl := range f.Calls("xmpp.Session.UnmarshalIQ") {
		n++
		pt, _ := g.Where(cl)
		c.r.Check(id, f, "stream registered before the open request is sent", "O: every path to the request passes Handler.addStream", cl.Pos(), g.MustPassBefore(g.Entry(), pt, isAdd, nil), "the open request can be answered (and data can arrive) before the stream is in the handler's table")
		cn := f.Norm(cl, &pt)
		for _, ce := range g.EdgesMatching("!eq(" + cn + ",nil)") {
			from := g.EdgeTarget(ce.E)
			bad := ""
			for _, rs := range g.Returns {
				rp, _ := g.Where(rs)
				if g.Reachable(from, rp, nil, isRm) {
					bad = "return at " + c.p.Pos(rs.Pos()) + " leaves the refused stream registered"
				}
			}
			c.r.Check(id, f, "registration withdrawn when the open request fails", "S: on the failure edge of the request every return has removed the stream again", cl.Pos(), bad == "", bad)
		}
	}
	c.r.Floor(id, "open requests in ibb.open", n, 1)
	// key agreement: what is withdrawn is what was registered (rmStream under
	// another string of the same type - the IQ's id - leaves the half-open
	// stream routable under its sid)
	var addKeys []string
	for _, cl := range f.Calls("ibb.Handler.addStream") {
		pt, _ := g.Where(cl)
		if len(cl.Args) >= 1 {
			addKeys = append(addKeys, f.Norm(cl.Args[0], &pt))
		}
	}
	nk := 0
	for _, cl := range f.Calls("ibb.Handler.rmStream") {
		pt, _ := g.Where(cl)
		if len(cl.Args) != 1 {
			continue
		}
		nk++
		k := f.Norm(cl.Args[0], &pt)
		okk := false
		for _, a := range addKeys {
			if a == k {
				okk = true
			}
		}
		c.r.Check(id, f, "key of the withdrawn registration", "K: rmStream is called with the key the stream was registered under", cl.Pos(), okk, "withdraws "+k+", registered "+strings.Join(addKeys, ", "))
	}
	c.r.Floor(id, "withdrawals in ibb.open", nk, 1)
}

// c15BlockBounded: no data packet is larger than the block size. The chain
// is bufio.Writer(blockSize) -> base64 -> one stanza per write; a bufio.Writer
// passes a write that is larger than its (empty) buffer straight through, so
// Conn.Write must not hand it more than Size() bytes in one call: every
// argument of writeBuf.Write is a prefix cut at Size() or has a dominating
// fact that its length does not exceed Size().
func c15BlockBounded(c *cx) {
	id := "C15.7"
	f := c.fn(id, "ibb", "(*Conn).Write")
	if f == nil {
		return
	}
	g := f.Graph()
	n := 0
	for _, cl := range f.Calls("bufio.Writer.Write") {
		if len(cl.Args) != 1 {
			continue
		}
		n++
		pt, _ := g.Where(cl)
		size := "bufio.Writer.Size[recv.writeBuf]()"
		ok := false
		why := ""
		if sl, isSl := ast.Unparen(cl.Args[0]).(*ast.SliceExpr); isSl && sl.Low == nil && sl.High != nil && f.Norm(sl.High, &pt) == size {
			ok = true
		} else {
			a := f.Norm(cl.Args[0], &pt)
			ok, why = g.DominatedAny(pt, []string{"!lt(" + size + ",builtin.len(" + a + "))", "lt(builtin.len(" + a + ")," + size + ")"})
		}
		c.r.Check(id, f, "write into the block buffer is at most one block", "G: the argument of writeBuf.Write is b[:Size()] or is dominated by len(arg) <= Size() (a larger write bypasses the buffer and becomes one oversized data packet)", cl.Pos(), ok, why)
	}
	c.r.Floor(id, "writes into the block buffer in Conn.Write", n, 1)
}

func c15Close(c *cx) { c15CloseAs(c, "C15.6") }

// c15CloseAs runs the close-path rules under another rule id (C09 uses them:
// a close path that skips a step wedges the serve loop).
func c15CloseAs(c *cx, id string) {
	f := c.fn(id, "ibb", "(*Conn).Close")
	if f != nil {
		g := f.Graph()
		steps := []struct {
			what string
			m    func(eng.Point, ast.Node) bool
		}{
			{"Flush", func(q eng.Point, nd ast.Node) bool { return f.ContainsCall(nd, "ibb.Conn.Flush") != nil }},
			{"closeFlushFunc (final base64 block)", func(q eng.Point, nd ast.Node) bool {
				found := false
				ast.Inspect(nd, func(x ast.Node) bool {
					if cl, ok := x.(*ast.CallExpr); ok {
						if k, _ := f.FieldClass(cl.Fun); k == "ibb.Conn.closeFlushFunc" {
							found = true
						}
					}
					return true
				})
				return found
			}},
			{"close request", func(q eng.Point, nd ast.Node) bool {
				if f.ContainsCall(nd, "xmpp.Session.SendIQElement") != nil {
					return true
				}
				// ... or a helper of Conn whose every path sends it
				found := false
				ast.Inspect(nd, func(x ast.Node) bool {
					if cl, ok := x.(*ast.CallExpr); ok && !found {
						if fo, ok := typeutil.Callee(f.Info(), cl).(*types.Func); ok {
							if h := c.p.FnOf(fo.Origin()); h != nil && h != f && strings.HasPrefix(h.Short, "ibb.(*Conn).") && h.Body != nil {
								hg := h.Graph()
								all := len(hg.Returns) > 0
								sends := func(q2 eng.Point, n2 ast.Node) bool { return h.ContainsCall(n2, "xmpp.Session.SendIQElement") != nil }
								for _, rs := range hg.Returns {
									rp, _ := hg.Where(rs)
									if !hg.MustPassBefore(hg.Entry(), rp, sends, nil) {
										all = false
									}
								}
								found = all
							}
						}
					}
					return !found
				})
				return found
			}},
			{"wake readers (close readReady)", wakesReaders(f)},
		}
		for _, rs := range g.Returns {
			if g.RetKindOf(rs) == eng.RetError {
				continue
			}
			pt, _ := g.Where(rs)
			if ok, _ := g.Dominated(pt, "recv.closed"); ok {
				continue // already closed: nothing to do
			}
			for _, st := range steps {
				c.r.Check(id, f, "Close passes "+st.what, "O+S: a first Close flushes, writes the final base64 block, sends the close request and wakes readers on every non-error path", rs.Pos(), st.m(pt, rs) || g.MustPassBefore(g.Entry(), pt, st.m, nil), "a non-error return skips "+st.what)
			}
		}
		// whatever happens to the local flush, the peer is told: every return of a
		// first Close - error returns included - has passed the close request
		// (otherwise the peer's reader drains what it got and then waits for an
		// end-of-file that never comes; a second Close is a no-op)
		for _, rs := range g.Returns {
			pt, _ := g.Where(rs)
			if ok, _ := g.Dominated(pt, "recv.closed"); ok {
				continue
			}
			m := steps[2].m
			c.r.Check(id, f, "peer told on every exit of Close", "O: every return of a first Close (error returns included) passes the close request", rs.Pos(), m(pt, rs) || g.MustPassBefore(g.Entry(), pt, m, nil), "this return leaves the stream closed locally without ever telling the peer")
		}
		for i := 0; i+1 < len(steps); i++ {
			for _, b := range g.Blocks {
				if !b.Live {
					continue
				}
				for j, nd := range b.Nodes {
					q := eng.Point{B: int(b.Index), I: j}
					if _, isDefer := nd.(*ast.DeferStmt); isDefer {
						continue // a deferred step runs when Close returns: after every other step
					}
					if steps[i+1].m(q, nd) {
						// the order binds the paths that can end without an error: on a
						// path that only leads to error returns (the flush failed) the
						// remaining steps are best effort (the peer is still told)
						onlyErr := true
						for _, rs := range g.Returns {
							rp, _ := g.Where(rs)
							if g.RetKindOf(rs) != eng.RetError && (rp == q || g.Reachable(g.After(q), rp, nil, nil)) {
								onlyErr = false
							}
						}
						if onlyErr {
							continue
						}
						c.r.Check(id, f, steps[i].what+" precedes "+steps[i+1].what, "O: order of the close steps", nd.Pos(), g.MustPassBefore(g.Entry(), q, steps[i].m, nil), steps[i+1].what+" reachable before "+steps[i].what)
					}
				}
			}
		}
		// the steps are unconditional (besides the closed flag and error checks)
		for _, b := range g.Blocks {
			if !b.Live {
				continue
			}
			for j, nd := range b.Nodes {
				q := eng.Point{B: int(b.Index), I: j}
				if steps[1].m(q, nd) {
					c.onlyFacts(id, f, nd, "closeFlushFunc", []string{"!recv.closed", "eq(*,nil)"})
				}
			}
		}
		c15ClosedGuard(c, f)
		// removal from the table
		c.r.Check(id, f, "stream unregistered", "K: a local Close removes the stream from the handler's table", f.Pos(), len(f.Calls("ibb.Handler.rmStream")) == 1, "no rmStream in Close")
	}
	for _, cf := range []*eng.Fn{f, c.p.Func("ibb", "(*Conn).closeNoNotify")} {
		if cf == nil {
			continue
		}
		// once the connection is marked closed it is taken out of the
		// handler's table on EVERY way out, error returns included: a closed
		// stream that stays registered keeps accepting the peer's packets
		cg := cf.Graph()
		isRm := func(q eng.Point, nd ast.Node) bool { return cf.ContainsCall(nd, "ibb.Handler.rmStream") != nil }
		for _, w := range cf.FieldWrites("ibb.Conn.closed") {
			wp, _ := cg.Where(w.Stmt)
			bad := ""
			for _, rs := range cg.Returns {
				rp, _ := cg.Where(rs)
				if cg.Reachable(cg.After(wp), rp, nil, isRm) {
					bad = "return at " + c.p.Pos(rs.Pos()) + " leaves the closed stream registered"
				}
			}
			c.r.Check(id, cf, "closed stream unregistered on every path", "S: after the closed flag is set every return (error returns too) has removed the stream from the handler", w.Stmt.Pos(), bad == "", bad)
			// ... and the readers are woken on every way out as well: the stream
			// is unregistered, so no data and no later close can wake a Read that
			// is blocked on an empty buffer
			isWake := wakesReaders(cf)
			badW := ""
			for _, rs := range cg.Returns {
				rp, _ := cg.Where(rs)
				if cg.Reachable(cg.After(wp), rp, nil, isWake) {
					badW = "return at " + c.p.Pos(rs.Pos()) + " leaves readers blocked: readReady is not closed on this path"
				}
			}
			c.r.Check(id, cf, "readers woken on every path", "S: after the closed flag is set every return (error returns too) has closed readReady, directly or by a deferred call", w.Stmt.Pos(), badW == "", badW)
		}
	}
	cn := c.fn(id, "ibb", "(*Conn).closeNoNotify")
	if cn != nil {
		c15ClosedGuard(c, cn)
		c.r.Check(id, cn, "stream unregistered", "K: a peer-initiated close removes the stream", cn.Pos(), len(cn.Calls("ibb.Handler.rmStream")) == 1, "no rmStream in closeNoNotify")
		okFlush := false
		for _, cl := range cn.Calls("ibb.Conn.flush") {
			if len(cl.Args) == 1 && cn.Norm(cl.Args[0], nil) == "p0" {
				okFlush = true
			}
		}
		// the flush through the handler's encoder is unconditional: it is also
		// what routes the final base64 block (closeFlushFunc) through that
		// encoder instead of a blocking IQ sent from inside the handler
		{
			g := cn.Graph()
			isFl := func(q eng.Point, nd ast.Node) bool { return cn.ContainsCall(nd, "ibb.Conn.flush") != nil }
			for _, cl := range cn.AllCalls() {
				if k, _ := cn.FieldClass(cl.Fun); k == "ibb.Conn.closeFlushFunc" {
					pt, _ := g.Where(cl)
					c.r.Check(id, cn, "final block written after an unconditional flush(t)", "O: every path to the final base64 block passes flush(t)", cl.Pos(), g.MustPassBefore(g.Entry(), pt, isFl, nil), "the final block can be written without the flush through the handler's encoder")
				}
			}
		}
		c.r.Check(id, cn, "flush through the handler's encoder", "P: remaining data is flushed through the encoder of the handler invocation (the session's lock is held by it)", cn.Pos(), okFlush, "flush not called with the given encoder")
	}
	// close for an unknown sid
	hi := c.fn(id, "ibb", "(*Handler).HandleIQ")
	if hi != nil {
		g := hi.Graph()
		ok := false
		for _, ce := range g.EdgesMatching("*!commaok(recv.streams[*])*") {
			for _, nd := range g.ReachableNodes(g.EdgeTarget(ce.E), nil) {
				if cl := hi.ContainsCall(nd, "stanza.IQ.Error"); cl != nil {
					if lit, isLit := ast.Unparen(cl.Args[0]).(*ast.CompositeLit); isLit {
						if v := structLitField(lit, "Condition"); v != nil && hi.Norm(v, nil) == "stanza.ItemNotFound" {
							ok = true
						}
					}
				}
				if _, isRet := nd.(*ast.ReturnStmt); isRet {
					break
				}
			}
		}
		c.r.Check(id, hi, "close for an unknown sid", "K: item-not-found", hi.Pos(), ok, "unknown sid not answered with item-not-found")
	}
}

func c15ClosedGuard(c *cx, f *eng.Fn) {
	g := f.Graph()
	n := 0
	for _, w := range f.FieldWrites("ibb.Conn.closed") {
		n++
		c.dom("C15.6", f, w.Stmt, "closed = true", []string{"!recv.closed"})
	}
	c.r.Check("C15.6", f, "closed flag", "G: the close path runs once (guarded by the closed flag, which it sets first)", f.Pos(), n == 1, "closed flag not set exactly once")
	for _, cl := range f.Calls("builtin.close") {
		c.dom("C15.6", f, cl, "close(readReady)", []string{"!recv.closed"})
	}
	_ = g
}

func c15NewConn(c *cx) {
	id := "C15.7"
	f := c.fn(id, "ibb", "newConn")
	if f == nil {
		return
	}
	g := f.Graph()
	for _, cl := range f.WalkLits("ibb.Conn") {
		pt, _ := g.Where(cl)
		get := func(n string) string {
			if v := structLitField(cl, n); v != nil {
				return f.Norm(v, &pt)
			}
			return ""
		}
		wb := get("writeBuf")
		c.r.Check(id, f, "writer chain", "P: writes go bufio(blockSize) -> base64 -> stanzaWriter", cl.Pos(),
			eng.Glob("bufio.NewWriterSize(encoding/base64.NewEncoder(var:encoding/base64.StdEncoding,*),conv:int(*))", wb), "writeBuf is "+wb)
		c.r.Check(id, f, "final block function", "P: closeFlushFunc closes the base64 encoder (writes the padded last block)", cl.Pos(), strings.HasPrefix(get("closeFlushFunc"), "encoding/base64.NewEncoder(") && strings.HasSuffix(get("closeFlushFunc"), ".Close"), "closeFlushFunc is "+get("closeFlushFunc"))
		c.r.Check(id, f, "handler back-reference", "P: the connection knows its handler (for unregistering)", cl.Pos(), get("handler") == "p0", "")
	}
	for _, cl := range f.WalkLits("ibb.stanzaWriter") {
		pt, _ := g.Where(cl)
		get := func(n string) string {
			if v := structLitField(cl, n); v != nil {
				return f.Norm(v, &pt)
			}
			return ""
		}
		c.r.Check(id, f, "acked flag", "K: data is sent in acknowledged IQs exactly when the negotiated carrier is 'iq' (or unset)", cl.Pos(), get("acked") == `((p2.Open.Stanza == "iq") || (p2.Open.Stanza == ""))`, "acked is "+get("acked"))
		c.r.Check(id, f, "stream id", "K: packets carry the negotiated sid", cl.Pos(), get("sid") == "p2.Open.SID", "sid is "+get("sid"))
		// peer by role
		tv := rootLocal(f, structLitField(cl, "to"))
		okTo := tv != nil
		if okTo {
			for _, d := range g.DefsOf(tv) {
				if d.Kind != eng.DefPlain || d.RHS == nil {
					continue
				}
				src := f.Norm(d.RHS, &d.At)
				want := ""
				if ok, _ := g.Dominated(d.At, "p3"); ok {
					want = "p2.IQ.From"
				} else if ok, _ := g.Dominated(d.At, "!p3"); ok {
					want = "p2.IQ.To"
				}
				if src != want {
					okTo = false
				}
			}
		}
		c.r.Check(id, f, "peer address by role", "K: the receiving side answers the open IQ's sender, the opening side addresses its target", cl.Pos(), okTo, "")
	}
}

// wakesReaders matches a node that closes Conn.readReady, directly or through
// a helper of the same package whose only guard is its own "already closed"
// flag.
func wakesReaders(f *eng.Fn) func(eng.Point, ast.Node) bool {
	return func(q eng.Point, nd ast.Node) bool {
		if cl := f.ContainsCall(nd, "builtin.close"); cl != nil {
			if k, _ := f.FieldClass(cl.Args[0]); k == "ibb.Conn.readReady" {
				return true
			}
		}
		// or through a helper of the same package that closes the channel
		// unless an earlier call already did (its only guard is its own
		// "already closed" flag)
		found := false
		ast.Inspect(nd, func(x ast.Node) bool {
			call, ok := x.(*ast.CallExpr)
			if !ok || found {
				return !found
			}
			if h := f.Prog.FnOf(calleeFunc(f, call)); h != nil && h.Pkg == f.Pkg && h != f {
				for _, hc := range h.Calls("builtin.close") {
					if k, _ := h.FieldClass(hc.Args[0]); k == "ibb.Conn.readReady" {
						hp, _ := h.Graph().Where(hc)
						facts := h.Graph().FactsAt(hp)
						okFacts := true
						for _, fa := range facts {
							if fa != "!recv.readClosed" {
								okFacts = false
							}
						}
						if okFacts {
							found = true
						}
					}
				}
			}
			return !found
		})
		return found
	}
}

// c15EveryPacketHandled (C15.19): packets are numbered consecutively and every
// numbered packet has to pass through handlePayload, which advances the
// expected number: a packet that decodes and is then dropped by the carrier's
// handler (an "empty packet needs no work" shortcut) leaves the counter
// behind, and every later packet is refused as out of sequence. After the
// decode of a data packet in HandleMessage / HandleIQ every return is the
// result of handlePayload, or of the malformed-packet refusal.
func c15EveryPacketHandled(c *cx, id string) {
	n := 0
	for _, name := range []string{"(*Handler).HandleMessage", "(*Handler).HandleIQ"} {
		f := c.fn(id, "ibb", name)
		if f == nil {
			continue
		}
		g := f.Graph()
		for _, cl := range f.Calls("encoding/xml.Decoder.Decode*") {
			if len(cl.Args) == 0 {
				continue
			}
			tt := eng.TypeStr(f.Info().TypeOf(cl.Args[0]))
			if !strings.Contains(tt, "ibb.dataMessage") && !strings.Contains(tt, "ibb.dataPayload") {
				continue
			}
			dp, ok := g.Where(cl)
			if !ok {
				continue
			}
			for _, rs := range g.Returns {
				rp, _ := g.Where(rs)
				if !g.Reachable(g.After(dp), rp, nil, nil) {
					continue
				}
				n++
				okr := retContainsCall(f, rs, "ibb.handlePayload") != nil || retContainsCall(f, rs, "ibb.refuseMalformed") != nil
				c.r.Check(id, f, "return after a data packet was decoded", "O: a decoded data packet is handed to handlePayload (which checks and advances the sequence number) or refused as malformed - never dropped by the carrier's handler", rs.Pos(), okr, "the packet is dropped here: the expected sequence number is not advanced and every later packet is refused")
			}
		}
	}
	c.r.Floor(id, "returns after the decode of a data packet", n, 4)
}

// c15RoutingEntryNotReplaced (C15.20): the handler routes data and close
// packets by session id through Handler.streams. A store under an id that is
// registered already replaces a live stream - its reader never sees the rest
// of its data nor end of file - and the clean-up of the newcomer (a refused
// open removes "its" entry) then removes the route altogether. Every store
// into Handler.streams is dominated, in the same function and under the same
// lock, by a look-up of that key that missed.
func c15RoutingEntryNotReplaced(c *cx, id string) {
	n := 0
	for _, f := range c.allFns() {
		if !strings.HasPrefix(f.Short, "ibb.") {
			continue
		}
		for _, mu := range f.MapUpdates() {
			if cls, ok := f.FieldClass(mu.Map); !ok || cls != "ibb.Handler.streams" || mu.Delete {
				continue
			}
			n++
			g := f.Graph()
			pt, _ := g.Where(mu.Node)
			key := f.Norm(mu.Key, &pt)
			okd, why := g.DominatedAny(pt, []string{"!commaok(*.streams[" + key + "])"})
			c.r.Check(id, f, "store into Handler.streams", "G: a stream is registered under a session id only behind a look-up of that id that found nothing (a live stream is never replaced)", mu.Node.Pos(), okd, why+": a second stream opened under the id of a live one takes over its route, and removes it when the open is refused")
		}
	}
	c.r.Floor(id, "stores into Handler.streams", n, 1)
}

// c15OnlyOwnRouteWithdrawn (C15.21 / C06.25): open withdraws a route only if it
// registered one: every call of rmStream in ibb.open - and every defer
// statement that installs a closure calling it - lies behind the edge on
// which addStream reported success. A clean-up that also runs when the
// session id was refused as in use removes the LIVE stream's route: its peer's
// data and close get item-not-found and its reader never returns.
func c15OnlyOwnRouteWithdrawn(c *cx, id string) {
	f := c.fn(id, "ibb", "open")
	if f == nil {
		return
	}
	g := f.Graph()
	n := 0
	check := func(nd ast.Node, what string) {
		n++
		pt, ok := g.Where(nd)
		if !ok {
			c.r.Unresolved(id, what+" in ibb.open")
			return
		}
		okd, why := g.DominatedAny(pt, []string{"ibb.Handler.addStream[*](*)"})
		c.r.Check(id, f, what, "G: the route of a session id is withdrawn by open only on paths on which open registered it (addStream succeeded)", nd.Pos(), okd, why+": the refusal of an id that is in use removes the live stream's route")
	}
	for _, cl := range f.Calls("ibb.Handler.rmStream") {
		check(cl, "rmStream")
	}
	for _, d := range g.Defers {
		if l, ok := ast.Unparen(d.Call.Fun).(*ast.FuncLit); ok {
			if lf := c.p.FnOfLit(l); lf != nil && len(lf.CallsDeep("ibb.Handler.rmStream")) > 0 {
				check(d, "deferred rmStream")
			}
		} else if f.CalleeID(d.Call) == "ibb.Handler.rmStream" {
			check(d, "deferred rmStream")
		}
	}
	c.r.Floor(id, "withdrawals of a route in ibb.open", n, 1)
}

// c15WakeUpOnlyOpenReaders (C15.22 / C06.26): Close closes the reader's wake-up
// channel (once, under readLock, behind the readClosed flag, F20). A data
// packet that the serve loop looked up just before the stream left the routing
// table is still handled afterwards: the wake-up send in handlePayload is
// dominated by the test that the read side is not closed - a send on the
// closed channel panics the serve goroutine.
func c15WakeUpOnlyOpenReaders(c *cx, id string) {
	if c.fn(id, "ibb", "handlePayload") == nil {
		return
	}
	n := 0
	// every send on the wake-up channel, wherever it is written (a Read that
	// "passes the wake-up on" after a partial read sends on the channel that
	// the peer's close has closed already)
	for _, f := range c.allFns() {
		if !strings.HasPrefix(f.Short, "ibb.") {
			continue
		}
		for _, op := range chanOps(f) {
			if op.kind != "send" || op.class != "ibb.Conn.readReady" {
				continue
			}
			n++
			c.domAny(id, f, op.node, "wake-up of the reader", []string{"!*.readClosed"})
		}
	}
	c.r.Floor(id, "wake-up sends in ibb", n, 1)
}

// c15EverySentPacketCounted (C15.23): packets are numbered consecutively: the
// writer's counter advances for every packet that was handed to the session
// without an error. Every return of stanzaWriter.Write that is not an error
// return has passed `seq++` (an early `return len(p), e.Encode(...)` for one
// carrier skips the increment and the next packet repeats the number).
func c15EverySentPacketCounted(c *cx, id string) {
	f := c.fn(id, "ibb", "(*stanzaWriter).Write")
	if f == nil {
		return
	}
	g := f.Graph()
	isInc := func(q eng.Point, nd ast.Node) bool {
		for _, w := range f.Writes() {
			if w.Stmt == nd && w.Tok == token.INC {
				if k, ok := f.FieldClass(w.LHS); ok && k == "ibb.stanzaWriter.seq" {
					return true
				}
			}
		}
		return false
	}
	n := 0
	for _, rs := range g.Returns {
		if g.RetKindOf(rs) == eng.RetError {
			continue
		}
		n++
		rp, _ := g.Where(rs)
		c.r.Check(id, f, "packet counted before Write reports success", "O: every return of stanzaWriter.Write whose error may be nil has passed seq++", rs.Pos(), g.MustPassBefore(g.Entry(), rp, isInc, nil), "a packet can be sent without advancing the sequence number: the next packet repeats it and is refused")
	}
	c.r.Floor(id, "non-error returns of stanzaWriter.Write", n, 1)
}

// c15CarrierTypes (C15.24): the packets of a stream arrive as IQs of type set
// or as messages. An error reply of the peer - the bounce of one of OUR data
// messages comes back with type error, the original <data/> payload and an
// <error/> - is not a packet: routed to the data handler it is taken for the
// peer's data with that seq and the peer's real packet is refused. Handle
// registers the data handler for no message of type error and the IQ handlers
// for type set only; the type of every registration is a constant named in
// Handle (directly or through a range over a literal of such constants).
func c15CarrierTypes(c *cx, id string) {
	f := c.fn(id, "ibb", "Handle")
	if f == nil {
		return
	}
	fns := []*eng.Fn{f}
	var addLits func(x *eng.Fn)
	addLits = func(x *eng.Fn) {
		for _, l := range x.Lits {
			fns = append(fns, l)
			addLits(l)
		}
	}
	addLits(f)
	consts := map[string]bool{}
	n := 0
	for _, fn := range fns {
		fn.WalkBody(func(nd ast.Node) bool {
			if idn, ok := nd.(*ast.Ident); ok {
				if k, ok := fn.Info().Uses[idn].(*types.Const); ok {
					switch eng.TypeStr(k.Type()) {
					case "stanza.MessageType", "stanza.IQType":
						consts[eng.TypeStr(k.Type())+":"+k.Name()] = true
					}
				}
			}
			return true
		})
		for _, callee := range []string{"mux.Message", "mux.IQ", "mux.MessageFunc", "mux.IQFunc"} {
			for _, cl := range fn.Calls(callee) {
				n++
				a := ast.Unparen(cl.Args[0])
				okArg := false
				if tv, ok := fn.Info().Types[a]; ok && tv.Value != nil {
					okArg = true
				} else if v := fn.Graph().LocalVar(a); v != nil {
					okArg = true
					for _, d := range fn.Graph().DefsOf(v) {
						if d.Kind != eng.DefRange {
							okArg = false
							continue
						}
						if _, isLit := ast.Unparen(d.RHS).(*ast.CompositeLit); !isLit {
							okArg = false
						}
					}
				}
				c.r.Check(id, fn, "stanza type of a registration", "K: the type a handler is registered for is a constant named in Handle", cl.Pos(), okArg, "the type is computed: "+fn.Norm(a, nil))
			}
		}
	}
	c.r.Floor(id, "registrations in ibb.Handle", n, 4)
	var bad []string
	for k := range consts {
		switch k {
		case "stanza.MessageType:ErrorMessage":
			bad = append(bad, k+" (a bounced data message is taken for the peer's data)")
		case "stanza.IQType:ResultIQ", "stanza.IQType:ErrorIQ", "stanza.IQType:GetIQ":
			bad = append(bad, k+" (packets are IQs of type set)")
		}
	}
	sort.Strings(bad)
	c.r.Check(id, f, "stanza types ibb.Handle registers for", "T: no message of type error and only IQs of type set carry packets", f.Pos(), len(bad) == 0, strings.Join(bad, "; "))
}

// c15HandlerEncoderStays (C15.28 / C06.33): when the peer closes a stream, the
// handler flushes what is still buffered through its own encoder (the serve
// loop holds the session's output lock and cannot wait for replies):
// Conn.flush(t) stores t into stanzaWriter.t, and closeNoNotify then closes the
// base64 encoder, whose last partial group is written through the same
// stanzaWriter. The encoder stays in place for that: the only store into
// stanzaWriter.t is the parameter of flush, behind the test that it is not
// nil; nothing resets it (a deferred `t = nil` makes the final block go out as
// an IQ that waits for its answer inside the serve loop).
func c15HandlerEncoderStays(c *cx, id string) {
	n := 0
	for _, f := range c.allFns() {
		if !strings.HasPrefix(f.Short, "ibb.") {
			continue
		}
		var all []*eng.Fn
		all = append(all, f)
		for _, w := range f.FieldWrites("ibb.stanzaWriter.t") {
			n++
			okw := f.Short == "ibb.(*Conn).flush" && w.RHS != nil && f.Norm(w.RHS, nil) == "p0"
			c.r.Check(id, f, "store into stanzaWriter.t", "W: the stream's writer is given the handler's encoder by Conn.flush(t) and keeps it", w.Stmt.Pos(), okw, "stored "+func() string {
				if w.RHS == nil {
					return "(tuple)"
				}
				return f.Norm(w.RHS, nil)
			}()+" in "+f.Short+": the last block of a stream the peer closed is sent as an IQ from inside the serve loop, which then waits for the answer it should be reading")
			if okw {
				c.domAny(id, f, w.Stmt, "store into stanzaWriter.t [an encoder was given]", []string{"!eq(p0,nil)"})
			}
		}
		_ = all
	}
	c.r.Floor(id, "stores into stanzaWriter.t", n, 1)
}

// c15MessageCarrierDecodedWhole (C15.29): a packet carried by a message is the
// <data/> child of that message, wherever it stands among the children
// (thread, body, delay and processing hints may come first): HandleMessage
// decodes the whole stanza into dataMessage and lets encoding/xml find the
// child. Decoding "the payload" as the first child fails on every message
// that has something in front of <data/>, and the decoding error ends the
// whole XMPP session.
func c15MessageCarrierDecodedWhole(c *cx, id string) {
	f := c.fn(id, "ibb", "(*Handler).HandleMessage")
	if f == nil {
		return
	}
	n := 0
	for _, callee := range []string{"encoding/xml.Decoder.Decode", "encoding/xml.Decoder.DecodeElement"} {
		for _, cl := range f.Calls(callee) {
			n++
			t := f.Info().TypeOf(cl.Args[0])
			ts := ""
			if t != nil {
				ts = eng.TypeStr(t)
			}
			c.r.Check(id, f, "decode target of a message carrier", "K: the stanza is decoded as a whole (*ibb.dataMessage): the data child is found wherever it stands", cl.Pos(), ts == "*ibb.dataMessage", "decodes into "+ts)
		}
	}
	c.r.Floor(id, "decodes in HandleMessage", n, 1)
	nt := len(f.Calls("encoding/xml.Decoder.Token")) + len(f.Calls("encoding/xml.TokenReader.Token"))
	c.r.Check(id, f, "tokens popped before the decode", "K: none (the decoder sees the message from its start element)", f.Pos(), nt == 0, "HandleMessage reads tokens itself before decoding")
}

// c15OpenIsASetRequest (C15.30 / C06.34): the open request is an IQ of type set,
// whatever type the IQ has that the caller of OpenIQ supplied: on every path to
// the call that sends it, open stores stanza.SetIQ into the request's type. A
// default ("if the type is empty") lets a caller's type=result go out: no
// answer ever comes and Open blocks until its context ends; with type=get the
// peer answers with an error a stream that the local side has registered.
func c15OpenIsASetRequest(c *cx, id string) {
	f := c.fn(id, "ibb", "open")
	if f == nil {
		return
	}
	g := f.Graph()
	n := 0
	isSet := func(q eng.Point, nd ast.Node) bool {
		as, ok := nd.(*ast.AssignStmt)
		if !ok || len(as.Lhs) != len(as.Rhs) {
			return false
		}
		for i, l := range as.Lhs {
			if k, _ := f.FieldClass(l); k == "stanza.IQ.Type" && f.Norm(as.Rhs[i], nil) == "stanza.SetIQ" {
				return true
			}
		}
		return false
	}
	for _, callee := range []string{"xmpp.Session.SendIQ", "xmpp.Session.SendIQElement", "xmpp.Session.UnmarshalIQ", "xmpp.Session.UnmarshalIQElement"} {
		for _, cl := range f.Calls(callee) {
			n++
			pt, _ := g.Where(cl)
			c.r.Check(id, f, "type of the open request", "O: every path to the send stores stanza.SetIQ into the request's type", cl.Pos(), g.MustPassBefore(g.Entry(), pt, isSet, nil), "the request can be sent with the type the caller supplied")
		}
	}
	c.r.Floor(id, "sends of the open request", n, 1)
}
