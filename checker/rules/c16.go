package rules

import (
	"go/ast"
	"go/token"
	"go/types"
	"sort"
	"strings"

	"verif/checker/eng"
)

func init() {
	Registry["C16"] = Rule{
		Meta: eng.Meta{
			Explanation: "STRUCTURAL PART ONLY of 'JID escaping is a lossless, chunk-independent transform' (losslessness and chunk independence are equations over run-time values and are not decided). Decided: table agreement (C16.1): the escape set is exactly the ten characters of XEP-0106, the pair set accepted by shouldUnescape (extracted from its boolean DNF) equals {hex(c) : c in the escape set} in both letter cases, ishex/unhex cover 0-9a-fA-F, the escape alphabet is 0123456789abcdef indexed by c>>4 then c&15; sentinel rule on the Index* results (C16.2); offset agreement (C16.3): in both Transform functions the byte that is escaped / the two hex digits that are decoded are read at the position of the matched character, which requires the copy count to have been compared with the match offset on every path (edge-dominance by 'copied == idx') and the operands to be src[nSrc], src[nSrc+1], src[nSrc+2] in affine normal form, with nSrc advanced by exactly 1 resp. 3; Span and Transform consult the same tables (C16.4).",
			NotDecided:  "escape/unescape round trip, chunk and destination-buffer independence, the ErrShortDst/ErrShortSrc protocol beyond the offset agreement.",
			Trusted:     trustedCommon,
		},
		Run: runC16,
	}
}

// dnfPairs extracts {(a,b)} from a boolean expression over s[0]==x and s[1]==y.
func dnfPairs(f *eng.Fn, e ast.Expr) (map[string]bool, bool) {
	out := map[string]bool{}
	ok := true
	var firsts func(e ast.Expr) ([]string, []string)
	// returns (values of s[0], values of s[1]) for an expression that is a disjunction of tests on one index
	var terms func(e ast.Expr)
	lit := func(e ast.Expr) (idx string, val string, isTest bool) {
		be, isB := ast.Unparen(e).(*ast.BinaryExpr)
		if !isB || be.Op != token.EQL {
			return "", "", false
		}
		lx, ly := be.X, be.Y
		if _, isI := ast.Unparen(lx).(*ast.IndexExpr); !isI {
			lx, ly = ly, lx // constant first: 'c' == s[i]
		}
		ix, isI := ast.Unparen(lx).(*ast.IndexExpr)
		if !isI {
			return "", "", false
		}
		i, okI := f.ConstInt(ix.Index)
		v := f.ConstVal(ly)
		if !okI || v == nil {
			return "", "", false
		}
		c, _ := f.ConstInt(ly)
		return itoa(int(i)), string(rune(c)), true
	}
	firsts = func(e ast.Expr) ([]string, []string) {
		e = ast.Unparen(e)
		if be, isB := e.(*ast.BinaryExpr); isB && be.Op == token.LOR {
			a0, a1 := firsts(be.X)
			b0, b1 := firsts(be.Y)
			return append(a0, b0...), append(a1, b1...)
		}
		if i, v, isT := lit(e); isT {
			if i == "0" {
				return []string{v}, nil
			}
			return nil, []string{v}
		}
		ok = false
		return nil, nil
	}
	terms = func(e ast.Expr) {
		e = ast.Unparen(e)
		be, isB := e.(*ast.BinaryExpr)
		if isB && be.Op == token.LOR {
			terms(be.X)
			terms(be.Y)
			return
		}
		if isB && be.Op == token.LAND {
			a0, a1 := firsts(be.X)
			b0, b1 := firsts(be.Y)
			s0 := append(a0, b0...)
			s1 := append(a1, b1...)
			if len(s0) == 0 || len(s1) == 0 {
				ok = false
			}
			for _, x := range s0 {
				for _, y := range s1 {
					out[x+y] = true
				}
			}
			return
		}
		ok = false
	}
	terms(e)
	return out, ok
}

func runC16(p *eng.Prog, r *eng.Report, tier string) {
	c := &cx{p, r, tier}
	c.r.Floor("C16.15", "copies from the source in the escape transformers", r18TransformReportsWhatItCopied(c, "C16.15"), 2)
	c16TransformersStateless(c, "C16.8")
	pk := p.Pkg("jid")
	if pk == nil {
		r.Unresolved("C16.1", "package jid")
		return
	}
	// ---- C16.1 tables -----------------------------------------------------------
	escSet := ""
	if o := pk.Types.Scope().Lookup("escape"); o != nil {
		if cst, ok := o.(interface {
			Val() interface{ ExactString() string }
		}); ok {
			_ = cst
		}
	}
	var escFn *eng.Fn
	for _, f := range c.allFns() {
		if f.Short == "jid.escapeMapping.Span" {
			escFn = f
		}
	}
	if escFn != nil {
		for _, cl := range escFn.Calls("bytes.IndexAny") {
			escSet, _ = escFn.ConstStr(cl.Args[1])
		}
	}
	want := ` "&'/:<>@\`
	sortStr := func(s string) string {
		b := []byte(s)
		sort.Slice(b, func(i, j int) bool { return b[i] < b[j] })
		return string(b)
	}
	c.r.CheckNamed("C16.1", "jid.escape", "escape set", "T: the escape set is exactly the ten characters space \" & ' / : < > @ \\ of XEP-0106", 0, sortStr(escSet) == sortStr(want), "set is "+escSet)
	su := c.fn("C16.1", "jid", "shouldUnescape")
	if su != nil {
		var pairs map[string]bool
		okDNF := false
		for _, rs := range su.Graph().Returns {
			pairs, okDNF = dnfPairs(su, rs.Results[0])
		}
		wantPairs := map[string]bool{}
		const hexdig = "0123456789abcdef"
		for i := 0; i < len(want); i++ {
			ch := want[i]
			hi, lo := string(hexdig[ch>>4]), string(hexdig[ch&15])
			wantPairs[hi+lo] = true
			wantPairs[hi+strings.ToUpper(lo)] = true
			wantPairs[strings.ToUpper(hi)+lo] = true
			wantPairs[strings.ToUpper(hi)+strings.ToUpper(lo)] = true
		}
		var missing, extra []string
		for k := range wantPairs {
			if !pairs[k] {
				missing = append(missing, k)
			}
		}
		for k := range pairs {
			if !wantPairs[k] {
				extra = append(extra, k)
			}
		}
		sort.Strings(missing)
		sort.Strings(extra)
		c.r.Check("C16.1", su, "unescape pair set", "T: shouldUnescape accepts exactly the hex codes of the ten escaped characters, in both letter cases", su.Pos(), okDNF && len(missing) == 0 && len(extra) == 0, "missing "+strings.Join(missing, ",")+" extra "+strings.Join(extra, ","))
	}
	// escape alphabet
	et := c.fn("C16.1", "jid", "escapeMapping.Transform")
	if et != nil {
		var idxs []string
		et.WalkBody(func(n ast.Node) bool {
			if ix, ok := n.(*ast.IndexExpr); ok {
				if s, ok := et.ConstStr(ix.X); ok {
					idxs = append(idxs, s+"["+et.Norm(ix.Index, nil)+"]")
				}
			}
			return true
		})
		okA := len(idxs) == 2 && strings.HasPrefix(idxs[0], "0123456789abcdef[") && strings.HasSuffix(idxs[0], " >> 4)]") && strings.HasPrefix(idxs[1], "0123456789abcdef[") && strings.HasSuffix(idxs[1], " & 15)]")
		c.r.Check("C16.1", et, "escape alphabet", "T: the escaped byte is written as \\ followed by hexdigits[c>>4], hexdigits[c&15]", et.Pos(), okA, "found "+strings.Join(idxs, " "))
	}
	for _, name := range []string{"ishex", "unhex"} {
		f := c.fn("C16.1", "jid", name)
		if f == nil {
			continue
		}
		ranges := map[string]bool{}
		for _, ce := range f.Graph().CondEdges() {
			for _, a := range ce.Atoms {
				ranges[a.S] = true
			}
		}
		okR := true
		for _, w := range []string{"!lt(p0,48)", "!lt(57,p0)", "!lt(p0,97)", "!lt(102,p0)", "!lt(p0,65)", "!lt(70,p0)"} {
			if !ranges[w] {
				okR = false
			}
		}
		c.r.Check("C16.1", f, "hex digit ranges", "T: "+name+" covers 0-9, a-f and A-F", f.Pos(), okR, "ranges found: "+strings.Join(sortedKeys(ranges), " "))
	}
	c16RoomBeforeFixedCopy(c, "C16.12")
	c16EscapeCopiesOnlyPlainRuns(c, "C16.13")
	c16RestCopyChecksTheDestination(c, "C16.14")
	ut := c.fn("C16.3", "jid", "unescapeMapping.Transform")
	us := c.fn("C16.4", "jid", "unescapeMapping.Span")
	es := c.fn("C16.4", "jid", "escapeMapping.Span")
	// ---- C16.2 sentinel rule ---------------------------------------------------------
	for _, f := range []*eng.Fn{et, ut, es, us} {
		if f != nil {
			c09IndexID(c, "C16.2", f, "jid escaping")
		}
	}
	// ---- C16.10 the exported wrapper adds nothing to the mappings ------------------------
	// Transformer.Transform / Span hand their arguments to the wrapped mapping
	// and return its results: the chunking contract (ErrShortDst when the
	// destination is full, counts that match what was written) is the
	// mapping's, decided by C16.3-C16.6; a second data path in the wrapper (a
	// "nothing to rewrite" fast copy) would have to re-establish all of it.
	for _, w := range []struct{ name, want string }{
		{"Transformer.Transform", "iface.Transform[recv.t](p0,p1,p2)"},
		{"Transformer.Span", "iface.Span[recv.t](p0,p1)"},
	} {
		wf := c.fn("C16.10", "jid", w.name)
		if wf == nil {
			continue
		}
		wg := wf.Graph()
		nr := 0
		for _, rs := range wg.Returns {
			nr++
			got := ""
			if res := retResults(wf, rs); len(res) == 1 {
				rp, _ := wg.Where(rs)
				got = wf.Norm(res[0], &rp)
			}
			c.r.Check("C16.10", wf, "wrapper return", "K: every return of the exported wrapper is the wrapped mapping's own result for the same arguments: "+w.want, rs.Pos(), eng.Glob("*"+strings.TrimPrefix(w.want, "iface."), got), "returns "+got+" ("+itoa(len(rs.Results))+" operands)")
		}
		c.r.Floor("C16.10", "returns of "+w.name, nr, 1)
	}
	// ---- C16.11 progress before "short destination" ---------------------------------------
	// a Transform asks for a bigger destination only after it has copied what
	// fits: every return of transform.ErrShortDst has passed a copy into dst. A
	// refusal up front ("dst is shorter than src, ask for more right away")
	// makes no progress with a fixed-size destination: transform.Reader fails
	// with ErrShortDst for inputs that String handles.
	for _, tf := range []*eng.Fn{et, ut} {
		if tf == nil {
			continue
		}
		tg := tf.Graph()
		nsd := 0
		isCopy := func(q eng.Point, nd ast.Node) bool { return tf.ContainsCall(nd, "builtin.copy") != nil }
		for _, rs := range tg.Returns {
			if len(rs.Results) != 3 || tf.Norm(rs.Results[2], nil) != "var:golang.org/x/text/transform.ErrShortDst" {
				continue
			}
			nsd++
			rp, _ := tg.Where(rs)
			c.r.Check("C16.11", tf, "ErrShortDst after copying what fits", "O: every return of ErrShortDst has passed a copy into the destination", rs.Pos(), tg.MustPassBefore(tg.Entry(), rp, isCopy, nil), "the destination is refused before anything was copied: with a destination of fixed size the call never makes progress")
		}
		c.r.Floor("C16.11", "ErrShortDst returns in "+tf.Short, nsd, 1)
	}
	// ---- C16.9 the two bytes after the escape character exist (Span) ---------------------
	if us != nil {
		sg := us.Graph()
		nsp := 0
		for _, cl := range us.Calls("jid.shouldUnescape") {
			nsp++
			cp, _ := sg.Where(cl)
			for k, pats := range map[string][]string{
				"last":           {"!eq((builtin.len(p0) - 1),local:*<int>)", "!eq(local:*<int>,(builtin.len(p0) - 1))"},
				"second to last": {"!eq((builtin.len(p0) - 2),local:*<int>)", "!eq(local:*<int>,(builtin.len(p0) - 2))"},
			} {
				okd, why := sg.DominatedAny(cp, pats)
				c.r.Check("C16.9", us, "escape character "+k+" excluded before the two following bytes are read", "G: src[n+1 : n+3] is evaluated only where n is neither len-1 nor len-2", cl.Pos(), okd, why)
			}
		}
		c.r.Floor("C16.9", "escape sequence tests in unescapeMapping.Span", nsp, 1)
	}
	// ---- C16.3 offset agreement ---------------------------------------------------------
	if et != nil {
		g := et.Graph()
		n := 0
		et.WalkBody(func(nd ast.Node) bool {
			as, ok := nd.(*ast.AssignStmt)
			if !ok || len(as.Rhs) != 1 {
				return true
			}
			ix, ok := ast.Unparen(as.Rhs[0]).(*ast.IndexExpr)
			if !ok || et.Norm(ix.X, nil) != "p1" {
				return true
			}
			n++
			pt, _ := g.Where(as)
			c.r.Check("C16.3", et, "escaped byte position", "E-aff: the byte that is escaped is src[nSrc] (after nSrc advanced over the copied prefix)", as.Pos(), affine(et, ix.Index) == "+r1", "index is "+affine(et, ix.Index))
			okd, why := g.DominatedAny(pt, []string{"eq(builtin.copy(*),bytes.IndexAny(*))", "eq(bytes.IndexAny(*),builtin.copy(*))"})
			c.r.Check("C16.3", et, "copied prefix length compared with the match offset", "G: the escaped byte is read only after 'copied == idx' was established (otherwise nSrc does not point at the matched character and a byte is consumed but not written)", as.Pos(), okd, why)
			return true
		})
		c.r.Floor("C16.3", "escaped byte reads", n, 1)
		c16Advance(c, et, "r1", map[string]bool{"+1": true, "+def:builtin.copy": true, "++": true})
		c16Commit(c, et, "++", "3")
	}
	if ut != nil {
		g := ut.Graph()
		n := 0
		for _, cl := range ut.Calls("jid.unhex") {
			ix, ok := ast.Unparen(cl.Args[0]).(*ast.IndexExpr)
			if !ok {
				continue
			}
			n++
			pt, _ := g.Where(cl)
			got := affine(ut, ix.Index)
			want := "+1+r1"
			if n == 2 {
				want = "+2+r1"
			}
			c.r.Check("C16.3", ut, "hex digit "+itoa(n)+" position", "E-aff: the hex digits decoded are src[nSrc+1] and src[nSrc+2] (nSrc pointing at the backslash)", cl.Pos(), got == want, "index is "+got+", want "+want)
			okd, why := g.DominatedAny(pt, []string{"eq(builtin.copy(*),bytes.IndexRune(*))", "eq(bytes.IndexRune(*),builtin.copy(*))"})
			c.r.Check("C16.3", ut, "copied prefix length compared with the match offset (digit "+itoa(n)+")", "G: the digits are read only after 'copied == idx' was established", cl.Pos(), okd, why)
		}
		c.r.Floor("C16.3", "unhex operands", n, 2)
		c16Commit(c, ut, "+3", "1")
		// nSrc moves by what was copied, or over one three-byte escape; by the
		// match offset only where 'copied == offset' is established (a short
		// destination otherwise loses the bytes that did not fit)
		nAdv := 0
		for _, w := range ut.Writes() {
			if ut.Norm(w.LHS, nil) != "r1" {
				continue
			}
			nAdv++
			inc := w.Tok.String()
			if w.RHS != nil {
				inc = affine(ut, w.RHS)
			}
			okA, why := inc == "+def:builtin.copy" || inc == "+3", "unexpected advance "+inc
			if inc == "+def:bytes.IndexRune" {
				wp, _ := g.Where(w.Stmt)
				okA, why = g.DominatedAny(wp, []string{"eq(builtin.copy(*),bytes.IndexRune(*))", "eq(bytes.IndexRune(*),builtin.copy(*))"})
				why = "source advanced by the match offset although fewer bytes may have been copied: " + why
			}
			c.r.Check("C16.3", ut, "advance of nSrc by "+inc, "E-aff: nSrc advances by the copied count or over one escape sequence (by the match offset only after 'copied == offset')", w.Stmt.Pos(), okA, why)
		}
		c.r.Floor("C16.3", "advances of nSrc in the unescape transformer", nAdv, 5)
		// the slice tested is src[nSrc+idx+1 : nSrc+idx+3]
		for _, cl := range ut.Calls("jid.shouldUnescape") {
			sl, ok := ast.Unparen(cl.Args[0]).(*ast.SliceExpr)
			okS := ok && affine(ut, sl.Low) == "+1+def:bytes.IndexRune+r1" && affine(ut, sl.High) == "+3+def:bytes.IndexRune+r1"
			c.r.Check("C16.3", ut, "tested escape sequence position", "E-aff: the two characters tested are src[nSrc+idx+1 : nSrc+idx+3]", cl.Pos(), okS, "")
			// ... and both of them exist: the escape character is neither the
			// last nor the second to last byte of the input on any path to the test
			// (whatever atEOF says; bytes beyond len(src) inside the capacity are
			// not input)
			cp, _ := g.Where(cl)
			for k, pats := range map[string][]string{
				"last":           {"!eq((builtin.len(p1[*:]) - 1),bytes.IndexRune(*))", "!eq(bytes.IndexRune(*),(builtin.len(p1[*:]) - 1))"},
				"second to last": {"!eq((builtin.len(p1[*:]) - 2),bytes.IndexRune(*))", "!eq(bytes.IndexRune(*),(builtin.len(p1[*:]) - 2))"},
				"absent":         {"!eq(bytes.IndexRune(*),-1)"},
			} {
				okd, why := g.DominatedAny(cp, pats)
				c.r.Check("C16.9", ut, "escape character "+k+" excluded before the two following bytes are read", "G: src[nSrc+idx+1 : nSrc+idx+3] is evaluated only where idx is none of -1, len-1, len-2 (index panic, or bytes that are not input are read)", cl.Pos(), okd, why)
			}
		}
	}
	// the convenience methods go through the transform package's drivers, which
	// grow the destination on ErrShortDst and feed the source in chunks: a
	// direct Transform into a fixed buffer with the error discarded truncates
	// (Escape expands up to three times)
	for _, k := range []struct{ name, want string }{
		{"Transformer.String", "golang.org/x/text/transform.String(recv,*p0*)#0"},
		{"Transformer.Bytes", "golang.org/x/text/transform.Bytes(recv,*p0*)#0"},
	} {
		cf := c.fn("C16.7", "jid", k.name)
		if cf == nil {
			continue
		}
		cg := cf.Graph()
		nr := 0
		for _, rs := range cg.Returns {
			if len(rs.Results) != 1 {
				continue
			}
			nr++
			rp, _ := cg.Where(rs)
			got := cf.Norm(rs.Results[0], &rp)
			c.r.Check("C16.7", cf, "result comes from the transform driver", "P: every return of "+k.name+" is the first result of "+strings.Split(k.want, "(")[0]+"(t, input)", rs.Pos(), eng.Glob(k.want, got), "returns "+got)
		}
		c.r.Floor("C16.7", "returns of "+k.name, nr, 1)
	}
	// the source ranges copied to the output by unescapeMapping.Transform: what
	// is copied without being looked at is text up to a backslash, through a
	// backslash that was tested not to start an escape sequence, or the rest of
	// the chunk (C16.5). A range that reaches further (the byte after the
	// backslash as well) swallows a byte that may itself be a backslash
	// starting a sequence.
	if ut != nil {
		allowedHigh := map[string]string{
			"":                          "the rest of the chunk (justified by C16.5)",
			"+def:bytes.IndexRune+r1":   "up to the backslash",
			"+1+def:bytes.IndexRune+r1": "through the backslash",
		}
		nc := 0
		for _, cl := range ut.Calls("builtin.copy") {
			if len(cl.Args) != 2 {
				continue
			}
			sl, ok := ast.Unparen(cl.Args[1]).(*ast.SliceExpr)
			if !ok || ut.Norm(sl.X, nil) != "p1" {
				continue
			}
			nc++
			hi := ""
			if sl.High != nil {
				hi = affine(ut, sl.High)
			}
			_, okh := allowedHigh[hi]
			// a local upper bound is fine if it is the chunk's end or one less
			if !okh && sl.High != nil {
				if idn, isID := ast.Unparen(sl.High).(*ast.Ident); isID {
					if v, isV := ut.Info().ObjectOf(idn).(*types.Var); isV {
						okh = true
						for _, d := range ut.Graph().DefsOf(v) {
							switch d.Kind {
							case eng.DefPlain:
								if d.RHS == nil || ut.Norm(d.RHS, nil) != "builtin.len(p1)" {
									okh = false
								}
							case eng.DefOpaque:
								// end-- (one byte kept back for the next chunk)
							default:
								okh = false
							}
						}
					}
				}
			}
			c.r.Check("C16.3", ut, "source range copied "+hi, "E-aff: a range copied to the output ends at the backslash, just behind it, or at the end of the chunk", cl.Pos(), okh, "the copied range ends at "+hi+": bytes behind the backslash are emitted without having been examined")
		}
		c.r.Floor("C16.3", "copies from the source in unescapeMapping.Transform", nc, 5)
	}
	// ---- C16.5 the rest of a chunk is declared clean only when it is ------------------------
	// Consuming "everything up to the end of src" as literal text is justified
	// only if no backslash is left in it, or no more input can follow (atEOF),
	// or the bytes after the last backslash were tested not to be a backslash.
	// (!ishex(next) alone is not enough: next may itself be a backslash whose
	// escape sequence continues in the following chunk.)
	justified := func(f *eng.Fn, site eng.Point, eof string, src string) (bool, string) {
		okDisj := func(d string) bool {
			d = strings.TrimSpace(d)
			if d == eof || eng.Glob("eq(bytes.Index*,-1)", d) || eng.Glob("!eq("+src+"[*],92)", d) || eng.Glob("!eq("+src+"[*],'\\\\')", d) {
				return true
			}
			if strings.HasPrefix(d, "and(") {
				for _, k := range splitTop(d[4:len(d)-1], " & ") {
					if strings.TrimSpace(k) == eof {
						return true
					}
				}
			}
			return false
		}
		var seen []string
		for _, fact := range f.Graph().FactsAt(site) {
			ds := []string{fact}
			if strings.HasPrefix(fact, "or(") {
				ds = splitTop(fact[3:len(fact)-1], " | ")
			}
			all := true
			for _, d := range ds {
				if !okDisj(d) {
					all = false
				}
			}
			if all {
				return true, ""
			}
			seen = append(seen, fact)
		}
		return false, "dominating facts: " + strings.Join(seen, " ; ")
	}
	if ut != nil {
		g := ut.Graph()
		n := 0
		for _, cl := range ut.Calls("builtin.copy") {
			if len(cl.Args) != 2 {
				continue
			}
			pt, _ := g.Where(cl)
			a := strings.Replace(ut.Norm(cl.Args[1], &pt), "local:r1<int>", "r1", 1)
			if a != "p1[r1:]" && a != "p1[r1:builtin.len(p1)]" {
				continue
			}
			n++
			okj, why := justified(ut, pt, "p2", "p1")
			c.r.Check("C16.5", ut, "copy of the whole rest of src", "G: the rest of the chunk is copied verbatim only if it holds no backslash, the input ends here, or the byte after the last backslash is not a backslash", cl.Pos(), okj, why)
		}
		c.r.Floor("C16.5", "whole-rest copies in unescapeMapping.Transform", n, 1)
	}
	if us != nil {
		g := us.Graph()
		n := 0
		for _, rs := range g.Returns {
			if len(rs.Results) != 2 || us.Norm(rs.Results[0], nil) != "builtin.len(p0)" {
				continue
			}
			n++
			pt, _ := g.Where(rs)
			okj, why := justified(us, pt, "p1", "p0")
			c.r.Check("C16.5", us, "span covers the whole rest of src", "G: Span reports the whole chunk as unchanged only if it holds no backslash, the input ends here, or the byte after the last backslash is not a backslash", rs.Pos(), okj, why)
		}
		c.r.Floor("C16.5", "whole-chunk returns in unescapeMapping.Span", n, 1)
	}
	// ---- C16.6 "need more input" is never the answer at the end of the input ------------------
	// ErrShortSrc with atEOF set makes x/text report an error (or silently drop
	// the unconsumed tail): every return of ErrShortSrc lies on paths where
	// atEOF is known to be false. The facts are combined by unit resolution:
	// `or(!A | !atEOF)` together with `A` gives `!atEOF`.
	notEOF := func(f *eng.Fn, pt eng.Point, eof string) (bool, string) {
		// historical dominance (no kills): "this test was taken on this path";
		// the tests compare idx with offsets that are advanced afterwards
		var facts []string
		seenAtom := map[string]bool{}
		for _, ce := range f.Graph().CondEdges() {
			for _, a := range ce.Atoms {
				if seenAtom[a.S] {
					continue
				}
				seenAtom[a.S] = true
				if f.Graph().DominatedFrom(f.Graph().Entry(), pt, []string{a.S}) {
					facts = append(facts, a.S)
				}
			}
		}
		have := map[string]bool{}
		for _, fa := range facts {
			have[fa] = true
		}
		if have["!"+eof] {
			return true, ""
		}
		for _, fa := range facts {
			for _, clause := range append([]string{fa}, func() []string {
				// conjuncts of an and(...) fact are facts too
				if strings.HasPrefix(fa, "and(") {
					return splitTop(fa[4:len(fa)-1], " & ")
				}
				return nil
			}()...) {
				clause = strings.TrimSpace(clause)
				if !strings.HasPrefix(clause, "or(") {
					continue
				}
				var rest []string
				for _, d := range splitTop(clause[3:len(clause)-1], " | ") {
					d = strings.TrimSpace(d)
					if have[eng.Negate(d)] {
						continue // this alternative is excluded by another fact
					}
					rest = append(rest, d)
				}
				if len(rest) == 1 && rest[0] == "!"+eof {
					return true, ""
				}
			}
		}
		// `end < len(src)` where end starts as len(src) and is only ever
		// decremented under !atEOF: the comparison can only hold after such a
		// decrement
		for _, fa := range facts {
			if !strings.HasPrefix(fa, "lt(local:") || !strings.Contains(fa, ",builtin.len(") {
				continue
			}
			name := fa[len("lt(local:"):]
			if i := strings.Index(name, "<"); i > 0 {
				name = name[:i]
			}
			g := f.Graph()
			for _, d := range g.AllDefs() {
				if d.Var.Name() != name {
					continue
				}
				okAll := true
				nDec := 0
				for _, d2 := range g.DefsOf(d.Var) {
					if d2.Kind == eng.DefPlain && d2.RHS != nil && strings.HasPrefix(f.Norm(d2.RHS, nil), "builtin.len(") {
						continue
					}
					nDec++
					if !g.DominatedFrom(g.Entry(), d2.At, []string{"!" + eof}) {
						okAll = false
					}
				}
				if okAll && nDec > 0 {
					return true, ""
				}
				break
			}
		}
		return false, "dominating facts: " + strings.Join(facts, " ; ")
	}
	for _, k := range []struct {
		f   *eng.Fn
		eof string
	}{{ut, "p2"}, {us, "p1"}} {
		if k.f == nil {
			continue
		}
		g := k.f.Graph()
		n := 0
		for _, rs := range g.Returns {
			if len(rs.Results) == 0 || !strings.HasSuffix(k.f.Norm(rs.Results[len(rs.Results)-1], nil), "transform.ErrShortSrc") {
				continue
			}
			n++
			pt, _ := g.Where(rs)
			okn, why := notEOF(k.f, pt, k.eof)
			c.r.Check("C16.6", k.f, "ErrShortSrc only before the end of the input", "G: a return of ErrShortSrc is dominated by !atEOF (by unit resolution over the dominating facts)", rs.Pos(), okn, why)
		}
		c.r.Floor("C16.6", "ErrShortSrc returns in "+k.f.Short, n, 2)
	}
	// ---- C16.4 same tables --------------------------------------------------------------------
	for _, f := range []*eng.Fn{us, ut} {
		if f == nil {
			continue
		}
		if f == us {
			// scan step agreement: Transform resumes at the byte AFTER a
			// backslash that starts no escape; Span must not skip further
			nw := 0
			for _, w := range f.Writes() {
				if f.Norm(w.LHS, nil) != "r0" {
					continue
				}
				nw++
				okw := w.Tok.String() == "++"
				inc := w.Tok.String()
				if w.RHS != nil {
					inc = w.Tok.String() + " " + f.Norm(w.RHS, nil)
					if w.Tok.String() == "+=" && f.ConstVal(w.RHS) == nil {
						// a jump to the next candidate found by an Index* search
						pt, _ := f.Graph().Where(w.Stmt)
						okw = strings.HasPrefix(f.Norm(w.RHS, &pt), "bytes.Index")
					}
					if cv := f.ConstVal(w.RHS); cv != nil && w.Tok.String() == "+=" && cv.ExactString() == "1" {
						okw = true
					}
				}
				c.r.Check("C16.4", f, "scan step "+inc, "Span examines every byte Transform examines: the scan index moves by one (or to the next match of an Index* search), so a backslash right after a non-escape backslash is still seen", w.Stmt.Pos(), okw, "the scan index is advanced by "+inc)
			}
			c.r.Floor("C16.4", "scan steps of unescapeMapping.Span", nw, 1)
		}
		c.r.Check("C16.4", f, "uses shouldUnescape", "Span and Transform decide with the same table", f.Pos(), len(f.Calls("jid.shouldUnescape")) >= 1, "no call of shouldUnescape")
		c.r.Check("C16.4", f, "uses ishex", "Span and Transform treat an incomplete sequence the same way", f.Pos(), len(f.Calls("jid.ishex")) >= 1, "no call of ishex")
	}
	for _, f := range []*eng.Fn{es, et} {
		if f == nil {
			continue
		}
		okE := false
		for _, cl := range f.Calls("bytes.IndexAny") {
			if s, _ := f.ConstStr(cl.Args[1]); s == escSet && s != "" {
				okE = true
			}
		}
		c.r.Check("C16.4", f, "uses the escape set", "Span and Transform search for the same characters", f.Pos(), okE, "IndexAny with another set")
	}
	// Span decides with no table that Transform does not decide with: a Span
	// that consults an extra table (the escape mapping's Span looking at what
	// FOLLOWS a backslash) reports "nothing to rewrite" for text that Transform
	// rewrites
	tables := map[string]bool{"jid.shouldUnescape": true, "jid.ishex": true, "jid.unhex": true, "bytes.IndexAny": true, "bytes.IndexRune": true, "bytes.IndexByte": true, "bytes.Index": true, "bytes.ContainsAny": true, "strings.IndexByte": true, "strings.IndexAny": true}
	used := func(f *eng.Fn) map[string]bool {
		out := map[string]bool{}
		for _, cl := range f.AllCalls() {
			if id := f.CalleeID(cl); tables[id] {
				out[id] = true
			}
		}
		return out
	}
	for _, pr := range []struct {
		span, tr *eng.Fn
		what     string
	}{{es, et, "escape"}, {us, ut, "unescape"}} {
		if pr.span == nil || pr.tr == nil {
			continue
		}
		tu := used(pr.tr)
		var extra []string
		for k := range used(pr.span) {
			if !tu[k] {
				extra = append(extra, k)
			}
		}
		sort.Strings(extra)
		c.r.Check("C16.4", pr.span, "Span decides with Transform's tables only", "T: every table / search function the "+pr.what+" mapping's Span consults is consulted by its Transform too", pr.span.Pos(), len(extra) == 0, "Span also consults "+strings.Join(extra, ", ")+": it can call text unchanged that Transform rewrites (or the reverse)")
	}
}

// c16Commit: the source position moves past an escaped character / escape
// sequence only when its complete replacement went to dst: the advance is
// dominated by a test that the replacement fits (or was copied completely).
func c16Commit(c *cx, f *eng.Fn, inc string, size string) {
	g := f.Graph()
	n := 0
	for _, w := range f.Writes() {
		if f.Norm(w.LHS, nil) != "r1" {
			continue
		}
		got := w.Tok.String()
		if w.RHS != nil {
			got = affine(f, w.RHS)
		}
		if got != inc {
			continue
		}
		n++
		pt, _ := g.Where(w.Stmt)
		okd := g.DominatedFrom(g.Entry(), pt, []string{
			"eq(builtin.copy(*)," + size + ")", "!lt(builtin.len(p0[*:])," + size + ")", "lt(" + itoa(atoiSafe(size)-1) + ",builtin.len(p0[*:]))",
		})
		c.r.Check("C16.3", f, "source advanced by "+inc+" only after the replacement was written", "G: nSrc moves past an escape only on paths where all "+size+" replacement byte(s) fit into dst (otherwise input is consumed that was never emitted)", w.Stmt.Pos(), okd, "nSrc advances although the replacement may have been truncated by a short destination")
	}
	c.r.Floor("C16.3", "advance by "+inc+" in "+f.Short, n, 1)
}

func atoiSafe(s string) int {
	n := 0
	for _, r := range s {
		if r < '0' || r > '9' {
			return 0
		}
		n = n*10 + int(r-'0')
	}
	return n
}

// c16Advance: nSrc (result r) changes only by the listed increments.
func c16Advance(c *cx, f *eng.Fn, res string, allowed map[string]bool) {
	for _, w := range f.Writes() {
		if f.Norm(w.LHS, nil) != res {
			continue
		}
		inc := w.Tok.String()
		if w.RHS != nil {
			inc = affine(f, w.RHS)
		}
		c.r.Check("C16.3", f, "advance of nSrc by "+inc, "nSrc advances by the copied count or by one escaped character", w.Stmt.Pos(), allowed[inc], "unexpected advance "+inc)
	}
}

// splitTop splits s at sep occurrences that are not nested in brackets.
func splitTop(s, sep string) []string {
	var out []string
	depth, last := 0, 0
	for i := 0; i < len(s); i++ {
		switch s[i] {
		case '(', '[', '{':
			depth++
		case ')', ']', '}':
			depth--
		}
		if depth == 0 && strings.HasPrefix(s[i:], sep) {
			out = append(out, s[last:i])
			last = i + len(sep)
			i += len(sep) - 1
		}
	}
	return append(out, s[last:])
}

// c16TransformersStateless (C16.8, E-eff): jid.Escape and jid.Unescape are
// package-level values that every goroutine shares. Their mapping types keep
// no state: no method of escapeMapping / unescapeMapping assigns to a field of
// its receiver, (fields that are only read are constants after construction).
// A scratch buffer in the mapping ("avoid building a slice per escaped byte")
// is written by concurrent Transform calls: '/' comes out as \22.
func c16TransformersStateless(c *cx, id string) {
	n := 0
	for _, tn := range []string{"escapeMapping", "unescapeMapping"} {
		pk := c.p.Pkg("jid")
		if pk == nil {
			continue
		}
		obj, _ := pk.Types.Scope().Lookup(tn).(*types.TypeName)
		if obj == nil {
			c.r.Unresolved(id, "type jid."+tn)
			continue
		}
		nm := 0
		for _, f := range c.allFns() {
			if f.Body == nil || f.Sig() == nil || f.Sig().Recv() == nil {
				continue
			}
			if rt := recvTypeName(f); rt == nil || rt != obj {
				continue
			}
			nm++
			for _, w := range f.Writes() {
				if strings.HasPrefix(f.Norm(w.LHS, nil), "recv.") || strings.HasPrefix(f.Norm(w.LHS, nil), "recv[") {
					n++
					c.r.Check(id, f, "write to receiver state "+f.Norm(w.LHS, nil), "E-eff: no method of a shared mapping assigns to its receiver", w.Stmt.Pos(), false, "concurrent Transform calls on jid.Escape / jid.Unescape overwrite each other's scratch state")
				}
			}
		}
		n++
		c.r.CheckNamed(id, "jid."+tn, "methods of the mapping type examined", "E-eff: the methods of the mapping behind a shared package-level transformer were found and scanned for writes to the receiver", obj.Pos(), nm >= 2, "fewer than two methods found")
	}
	c.r.Floor(id, "mapping types examined", n, 2)
}

// c16RoomBeforeFixedCopy (C16.12): an escape sequence is written whole or not
// at all. copy() truncates silently, so a copy of a k-byte literal into
// dst[i:] is preceded, on every path since the last change of i (and from the
// entry), by the edge of a room test len(dst[i:]) >= k. A loop that escapes
// several characters behind one test writes the second sequence truncated
// when the destination ends inside the group: the result then depends on the
// capacity of the caller's buffer.
func c16RoomBeforeFixedCopy(c *cx, id string) {
	n := 0
	for _, name := range []string{"escapeMapping.Transform", "unescapeMapping.Transform"} {
		f := c.fn(id, "jid", name)
		if f == nil {
			continue
		}
		g := f.Graph()
		for _, cl := range f.Calls("builtin.copy") {
			k := int64(-1)
			switch src := ast.Unparen(cl.Args[1]).(type) {
			case *ast.CompositeLit:
				k = int64(len(src.Elts))
			default:
				if sv, ok := f.ConstStr(cl.Args[1]); ok {
					k = int64(len(sv))
				}
			}
			if k < 2 {
				continue
			}
			sl, ok := ast.Unparen(cl.Args[0]).(*ast.SliceExpr)
			if !ok || sl.Low == nil {
				c.r.Check(id, f, "fixed-size copy", "destination is dst[i:]", cl.Pos(), false, "destination of a "+itoaPos(token.Pos(k))+"-byte literal is not a tail slice")
				continue
			}
			iv := g.LocalVar(sl.Low)
			if iv == nil {
				c.r.Check(id, f, "fixed-size copy", "destination index is a local", cl.Pos(), false, "index is "+f.Norm(sl.Low, nil))
				continue
			}
			n++
			cut := eng.Cut{}
			for _, ce := range g.CondEdges() {
				for _, a := range ce.Atoms {
					if !strings.HasPrefix(a.S, "!lt(builtin.len(p0[") || len(a.Vars) == 0 || a.Vars[0] != iv {
						continue
					}
					j := strings.LastIndex(a.S, ",")
					var room int64
					okNum := j > 0
					for _, r := range a.S[j+1 : len(a.S)-1] {
						if r < '0' || r > '9' {
							okNum = false
							break
						}
						room = room*10 + int64(r-'0')
					}
					if okNum && room >= k {
						cut[ce.E] = true
					}
				}
			}
			cp, _ := g.Where(cl)
			bad := ""
			if g.Reachable(g.Entry(), cp, cut, nil) {
				bad = "from the entry"
			}
			for _, d := range g.DefsOf(iv) {
				if d.Kind == eng.DefZero || d.Kind == eng.DefParam {
					continue
				}
				if g.Reachable(g.After(d.At), cp, cut, nil) {
					bad = "after " + f.Prog.NodeStr(d.Node) + " at " + f.Prog.Pos(d.Node.Pos())
				}
			}
			c.r.Check(id, f, "copy of a fixed sequence into dst", "G: a room test for the whole sequence lies between every change of the output index and the copy", cl.Pos(), bad == "", "the copy is reached "+bad+" without a test that the sequence fits: copy() truncates it")
		}
	}
	c.r.Floor(id, "copies of fixed sequences in the Transform functions", n, 1)
}

// c16EscapeCopiesOnlyPlainRuns (C16.13): escaping is lossless because every
// escapable byte - the backslash included - is replaced by its sequence: what
// escapeMapping.Transform copies from the source unchanged is the run in
// front of the next escapable byte (src[nSrc:nSrc+idx]) or, when there is
// none, the rest (src[nSrc:]). A copy of any other source range (a backslash
// that "already starts a sequence", copied with its two hex digits) makes
// "c:\20files" unescape to "c: files".
func c16EscapeCopiesOnlyPlainRuns(c *cx, id string) {
	f := c.fn(id, "jid", "escapeMapping.Transform")
	if f == nil {
		return
	}
	n := 0
	for _, cl := range f.Calls("builtin.copy") {
		sl, ok := ast.Unparen(cl.Args[1]).(*ast.SliceExpr)
		if !ok {
			continue
		}
		if v := rootLocal(f, sl.X); v == nil || v != f.Sig().Params().At(1) {
			continue
		}
		n++
		lo, hi := affine(f, sl.Low), affine(f, sl.High)
		okr := lo == "+r1" && (hi == "" || (strings.Contains(hi, "+r1") && strings.Contains(hi, "bytes.IndexAny") || strings.Contains(hi, "def:bytes.IndexAny")))
		c.r.Check(id, f, "source range copied unchanged", "E-aff: src[nSrc:] or src[nSrc:nSrc+idx], idx the result of the search for the next escapable byte", cl.Pos(), okr, "copies src["+lo+":"+hi+"]")
	}
	c.r.Floor(id, "verbatim copies in escapeMapping.Transform", n, 2)
}

// c16RestCopyChecksTheDestination (C16.14): copy() copies as much as fits. A
// Transform that copies "the rest of the source" (src[nSrc:]) and then reports
// success has made sure that the rest did fit: every success return reachable
// from such a copy lies behind the edge nSrc >= len(src) (the other edge
// answers ErrShortDst). Without it, Transform returns a nil error at the end of
// the input with source left over: transform.Append and hand-written loops
// truncate the output for almost every destination size.
func c16RestCopyChecksTheDestination(c *cx, id string) {
	n := 0
	for _, name := range []string{"escapeMapping.Transform", "unescapeMapping.Transform"} {
		f := c.fn(id, "jid", name)
		if f == nil {
			continue
		}
		g := f.Graph()
		cut := eng.Cut{}
		for _, ce := range g.CondEdges() {
			for _, a := range ce.Atoms {
				if eng.Glob("!lt(local:r1<int>,builtin.len(p1))", a.S) || eng.Glob("!lt(*r1*,builtin.len(*p1*))", a.S) {
					cut[ce.E] = true
				}
			}
		}
		for _, cl := range f.Calls("builtin.copy") {
			sl, ok := ast.Unparen(cl.Args[1]).(*ast.SliceExpr)
			if !ok || sl.High != nil {
				continue
			}
			if v := rootLocal(f, sl.X); v == nil || v != f.Sig().Params().At(1) {
				continue
			}
			n++
			cp, _ := g.Where(cl)
			bad := ""
			for _, rs := range g.Returns {
				if g.RetKindOf(rs) == eng.RetError {
					continue
				}
				rp, ok := g.Where(rs)
				if !ok {
					continue
				}
				// stop at the next copy: its own obligation
				stop := func(q eng.Point, nd ast.Node) bool {
					return nd != nil && f.ContainsCall(nd, "builtin.copy") != nil && !containsNode(nd, cl)
				}
				if g.Reachable(g.After(cp), rp, cut, stop) {
					bad = f.Prog.Pos(rs.Pos())
				}
			}
			c.r.Check(id, f, "success after a copy of the rest of the source", "G: a success return after copy(dst, src[nSrc:]) lies behind the test that all of the source was consumed", cl.Pos(), bad == "", "the return at "+bad+" reports success although the copy may have been cut short by the destination")
		}
	}
	c.r.Floor(id, "copies of the rest of the source", n, 2)
}
