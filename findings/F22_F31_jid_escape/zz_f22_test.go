// Reproduction of findings F22 and F31 (property C16). Place in jid/ (package
// jid_test): go test -run 'TestF22|TestF31' ./jid
package jid_test

import (
	"testing"

	"golang.org/x/text/transform"
	"mellium.im/xmpp/jid"
)

// F22: an escape sequence that starts two or more bytes into the input.
func TestF22UnescapeOffsets(t *testing.T) {
	defer func() {
		if p := recover(); p != nil {
			t.Errorf("Unescape panicked: %v", p)
		}
	}()
	if got := jid.Unescape.String(`ab\20c`); got != "ab c" {
		t.Errorf(`Unescape("ab\20c") = %q, want "ab c"`, got)
	}
	if got := jid.Unescape.String(`ab\20`); got != "ab " {
		t.Errorf(`Unescape("ab\20") = %q, want "ab "`, got)
	}
}

// F31: a destination that is too short for the text before an escaped
// character: a byte is consumed but never written.
func TestF31EscapeShortDst(t *testing.T) {
	src := []byte("abcd e")
	dst := make([]byte, 2)
	nDst, nSrc, err := jid.Escape.Transform(dst, src, true)
	if err != transform.ErrShortDst {
		t.Fatalf("err = %v", err)
	}
	if nSrc != nDst {
		t.Errorf("consumed %d bytes of plain text but wrote %d: %q", nSrc, nDst, dst[:nDst])
	}
	if got := string(jid.Escape.Bytes([]byte("74E "))); got != `74E\20` {
		t.Errorf(`Escape("74E ") = %q, want "74E\20"`, got)
	}
}
