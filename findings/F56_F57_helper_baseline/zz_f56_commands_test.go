// Place in: commands/   Run: go test -vet=off -count=1 -timeout 60s -run TestBaselineExecuteErrorReplyWedgesServe ./commands/
package commands_test

import (
	"context"
	"encoding/xml"
	"testing"
	"time"

	"mellium.im/xmlstream"
	"mellium.im/xmpp/commands"
	"mellium.im/xmpp/internal/xmpptest"
	"mellium.im/xmpp/jid"
	"mellium.im/xmpp/mux"
	"mellium.im/xmpp/stanza"
)

// The peer answers every IQ request with a service-unavailable error IQ (an
// empty mux does that).
// commands.Command.Execute returns the error, but never closes the response
// (on every error path of ExecuteIQ the named result respPayload has already
// been overwritten with nil by the return statement when the deferred cleanup
// looks at it), so Serve stays blocked waiting for the response to be closed
// and the session never processes any input again.
func TestBaselineExecuteErrorReplyWedgesServe(t *testing.T) {
	cs := xmpptest.NewClientServer(
		xmpptest.ServerHandler(mux.New(stanza.NSClient)),
	)

	ctx, cancel := context.WithTimeout(context.Background(), 2*time.Second)
	defer cancel()
	_, rc, err := commands.Command{JID: jid.MustParse("example.net"), Node: "x"}.Execute(ctx, nil, cs.Client)
	if err == nil {
		rc.Close()
		t.Fatal("expected an error for an error reply")
	}
	t.Logf("Execute: %v", err)

	// The session must still be processing input: a second request must be
	// answered (with an error again).
	done := make(chan error, 1)
	go func() {
		ctx2, cancel2 := context.WithTimeout(context.Background(), 2*time.Second)
		defer cancel2()
		done <- cs.Client.UnmarshalIQElement(ctx2, xmlstream.Wrap(nil, xml.StartElement{Name: xml.Name{Space: "urn:xmpp:ping", Local: "ping"}}), stanza.IQ{Type: stanza.GetIQ}, nil)
	}()
	select {
	case err = <-done:
		if err == context.DeadlineExceeded {
			t.Fatalf("Serve is wedged after commands.Execute got an error reply: second request: %v", err)
		}
		t.Logf("second request: %v", err)
	case <-time.After(5 * time.Second):
		t.Fatal("Serve is wedged after commands.Execute got an error reply: second request never returned")
	}
}
