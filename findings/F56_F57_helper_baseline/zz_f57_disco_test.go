// Place in: disco/   Run: go test -vet=off -count=1 -timeout 60s -run TestBaselineItemsPageTurnErrorReply ./disco/
package disco_test

import (
	"context"
	"encoding/xml"
	"strings"
	"testing"
	"time"

	"mellium.im/xmlstream"
	"mellium.im/xmpp/disco"
	"mellium.im/xmpp/disco/items"
	"mellium.im/xmpp/internal/xmpptest"
	"mellium.im/xmpp/jid"
	"mellium.im/xmpp/stanza"
)

// The peer answers the first disco#items request with one item and an RSM
// <set/> that names a last item (so that the iterator wants to turn the page),
// and answers the follow-up request with an error IQ.
func TestBaselineItemsPageTurnErrorReply(t *testing.T) {
	n := 0
	cs := xmpptest.NewClientServer(
		xmpptest.ServerHandlerFunc(func(t xmlstream.TokenReadEncoder, start *xml.StartElement) error {
			if start.Name.Local != "iq" {
				return nil
			}
			iq, err := stanza.NewIQ(*start)
			if err != nil {
				return err
			}
			n++
			if n == 1 {
				d := xml.NewDecoder(strings.NewReader(`<query xmlns="http://jabber.org/protocol/disco#items"><item jid="a.example.net"/><set xmlns="http://jabber.org/protocol/rsm"><first>a</first><last>a</last><count>2</count></set></query>`))
				_, err = xmlstream.Copy(t, iq.Result(d))
				return err
			}
			_, err = xmlstream.Copy(t, iq.Error(stanza.Error{Type: stanza.Cancel, Condition: stanza.ItemNotFound}))
			return err
		}),
	)

	defer func() {
		if r := recover(); r != nil {
			t.Fatalf("disco.FetchItems iterator panicked: %v", r)
		}
	}()
	ctx, cancel := context.WithTimeout(context.Background(), 5*time.Second)
	defer cancel()
	iter := disco.FetchItems(ctx, items.Item{JID: jid.MustParse("example.net")}, cs.Client)
	for iter.Next() {
		t.Logf("item: %v", iter.Item())
	}
	t.Logf("err: %v", iter.Err())
	iter.Close()
}
