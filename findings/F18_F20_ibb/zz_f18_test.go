// Reproduction of findings F18 and F20 (property C15/C06/C09). Place in ibb/
// (package ibb_test): go test -run 'TestF18|TestF20' ./ibb
package ibb_test

import (
	"context"
	"encoding/xml"
	"io"
	"testing"
	"time"

	"mellium.im/xmlstream"
	"mellium.im/xmpp/ibb"
	"mellium.im/xmpp/internal/xmpptest"
	"mellium.im/xmpp/jid"
	"mellium.im/xmpp/mux"
	"mellium.im/xmpp/stanza"
)

// F18: the peer refuses the stream with an error IQ; Open must not succeed.
func TestF18OpenRefused(t *testing.T) {
	h := &ibb.Handler{}
	cs := xmpptest.NewClientServer(
		xmpptest.ClientHandler(mux.New(stanza.NSClient, ibb.Handle(h))),
		xmpptest.ServerHandlerFunc(func(t xmlstream.TokenReadEncoder, start *xml.StartElement) error {
			iq, err := stanza.NewIQ(*start)
			if err != nil {
				return err
			}
			_, err = xmlstream.Copy(t, iq.Error(stanza.Error{Type: stanza.Cancel, Condition: stanza.NotAcceptable}))
			return err
		}),
	)
	defer cs.Close()
	ctx, cancel := context.WithTimeout(context.Background(), 2*time.Second)
	defer cancel()
	conn, err := h.Open(ctx, cs.Client, jid.MustParse("peer@example.net/x"))
	if err == nil || conn != nil {
		t.Errorf("Open succeeded although the peer answered with an error: conn=%v err=%v", conn != nil, err)
	}
}

// F20: after a local Close the stream stays registered and its wake-up channel
// is closed: the next data packet for that sid panics the serve goroutine.
func TestF20DataAfterLocalClose(t *testing.T) {
	h := &ibb.Handler{}
	cs := xmpptest.NewClientServer(
		xmpptest.ClientHandler(mux.New(stanza.NSClient, ibb.Handle(h))),
		xmpptest.ServerHandlerFunc(func(t xmlstream.TokenReadEncoder, start *xml.StartElement) error {
			iq, err := stanza.NewIQ(*start)
			if err != nil {
				return err
			}
			if iq.Type != stanza.SetIQ && iq.Type != stanza.GetIQ {
				return nil
			}
			_, err = xmlstream.Copy(t, iq.Result(nil))
			return err
		}),
	)
	defer cs.Close()
	ctx, cancel := context.WithTimeout(context.Background(), 2*time.Second)
	defer cancel()
	conn, err := h.OpenIQ(ctx, stanza.IQ{To: jid.MustParse("peer@example.net/x")}, cs.Client, true, 0, "sid1")
	if err != nil {
		t.Fatal(err)
	}
	if err = conn.Close(); err != nil {
		t.Fatal(err)
	}
	// A late data packet from the peer for the closed stream, fed to the
	// handler exactly as the multiplexer would.
	defer func() {
		if p := recover(); p != nil {
			t.Errorf("data packet after the local Close panicked the handler: %v", p)
		}
	}()
	payload := xml.StartElement{Name: xml.Name{Space: ibb.NS, Local: "data"}, Attr: []xml.Attr{
		{Name: xml.Name{Local: "sid"}, Value: "sid1"}, {Name: xml.Name{Local: "seq"}, Value: "0"},
	}}
	r := xmlstream.MultiReader(xmlstream.Token(xml.CharData("AAAA")), xmlstream.Token(payload.End()))
	h.HandleIQ(stanza.IQ{Type: stanza.SetIQ, ID: "1"}, struct {
		xml.TokenReader
		xmlstream.Encoder
	}{TokenReader: r, Encoder: discardEncoder{}}, &payload)
}

type discardEncoder struct{}

func (discardEncoder) EncodeToken(xml.Token) error                    { return nil }
func (discardEncoder) Encode(interface{}) error                       { return nil }
func (discardEncoder) EncodeElement(interface{}, xml.StartElement) error { return nil }

var _ = io.EOF
