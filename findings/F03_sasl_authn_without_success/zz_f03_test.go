// Reproduction of finding F3 (property C03): place in the repository root
// (package xmpp_test) and run: go test -run TestF03 .
package xmpp_test

import (
	"context"
	"io"
	"net"
	"strings"
	"testing"
	"time"

	"mellium.im/sasl"
	"mellium.im/xmpp"
	"mellium.im/xmpp/jid"
)

// A two-step mechanism: initial response, then one challenge completes it.
var f03mech = sasl.Mechanism{
	Name: "X-TWOSTEP",
	Start: func(*sasl.Negotiator) (bool, []byte, interface{}, error) {
		return true, []byte("hello"), nil, nil
	},
	Next: func(*sasl.Negotiator, []byte, interface{}) (bool, []byte, interface{}, error) {
		return false, nil, nil, nil
	},
}

func f03readUntil(c net.Conn, sub string) string {
	var sb strings.Builder
	buf := make([]byte, 1)
	for !strings.Contains(sb.String(), sub) {
		c.SetReadDeadline(time.Now().Add(2 * time.Second))
		if _, err := c.Read(buf); err != nil {
			break
		}
		sb.WriteByte(buf[0])
	}
	return sb.String()
}

// The receiver sends the mechanism's final data in a <challenge/>, never sends
// <success/>, and then simply answers the next stream header.
func TestF03AuthnWithoutSuccess(t *testing.T) {
	cc, sc := net.Pipe()
	defer cc.Close()
	const hdr = `<?xml version='1.0'?><stream:stream xmlns='jabber:client' xmlns:stream='http://etherx.jabber.org/streams' id='x' from='example.net' version='1.0'>`
	go func() {
		defer sc.Close()
		f03readUntil(sc, ">")
		f03readUntil(sc, ">")
		io.WriteString(sc, hdr+`<stream:features><mechanisms xmlns='urn:ietf:params:xml:ns:xmpp-sasl'><mechanism>X-TWOSTEP</mechanism></mechanisms></stream:features>`)
		f03readUntil(sc, "</auth>")
		io.WriteString(sc, `<challenge xmlns='urn:ietf:params:xml:ns:xmpp-sasl'>Zm9v</challenge>`)
		// No <success/>. A client that (wrongly) believes it is authenticated
		// restarts the stream; answer that with an empty features list.
		got := f03readUntil(sc, "<stream:stream")
		if strings.Contains(got, "<stream:stream") {
			f03readUntil(sc, ">")
			io.WriteString(sc, hdr+`<stream:features/>`)
		}
		f03readUntil(sc, "never")
	}()
	ctx, cancel := context.WithTimeout(context.Background(), 3*time.Second)
	defer cancel()
	j := jid.MustParse("me@example.net")
	s, err := xmpp.NewSession(ctx, j.Domain(), j, cc, xmpp.Secure, xmpp.NewNegotiator(func(*xmpp.Session, *xmpp.StreamConfig) xmpp.StreamConfig {
		return xmpp.StreamConfig{Features: []xmpp.StreamFeature{xmpp.SASL("", "secret", f03mech)}}
	}))
	if s != nil && s.State()&xmpp.Authn != 0 {
		t.Errorf("session marked authenticated although the receiver never signalled <success/> (state %v, err %v)", s.State(), err)
	}
}
