// Reproduction of finding F32 (property C10): place in the repository root
// (package xmpp_test) and run: go test -run TestF32 .
package xmpp_test

import (
	"bytes"
	"encoding/xml"
	"io"
	"strings"
	"testing"

	"mellium.im/xmlstream"
	"mellium.im/xmpp"
	"mellium.im/xmpp/internal/xmpptest"
	"mellium.im/xmpp/stream"
)

// A handler error must be exchanged as a stream error before the closing tag.
func TestF32StreamErrorFlushed(t *testing.T) {
	var out bytes.Buffer
	rw := struct {
		io.Reader
		io.Writer
	}{strings.NewReader(`<a xmlns='urn:example'/>`), &out}
	s := xmpptest.NewClientSession(0, rw)
	s.Serve(xmpp.HandlerFunc(func(xmlstream.TokenReadEncoder, *xml.StartElement) error {
		return stream.PolicyViolation
	}))
	i := strings.Index(out.String(), "policy-violation")
	j := strings.Index(out.String(), "</stream:stream>")
	if i < 0 || j < 0 || i > j {
		t.Errorf("stream error not on the wire before the closing tag: %q", out.String())
	}
}
