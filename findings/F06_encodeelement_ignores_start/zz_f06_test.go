// Reproduction of finding F6 (property C05): place in the repository root
// (package xmpp_test) and run: go test -run TestF06 .
package xmpp_test

import (
	"bytes"
	"context"
	"encoding/xml"
	"io"
	"strings"
	"testing"

	"mellium.im/xmpp/internal/xmpptest"
)

// EncodeElement must use the supplied start element as the outermost tag.
func TestF06EncodeElementUsesStart(t *testing.T) {
	var out bytes.Buffer
	rw := struct {
		io.Reader
		io.Writer
	}{strings.NewReader(""), &out}
	s := xmpptest.NewClientSession(0, rw)
	v := struct {
		XMLName xml.Name `xml:"urn:example inner"`
		A       string   `xml:"a,attr"`
	}{A: "1"}
	err := s.EncodeElement(context.Background(), v, xml.StartElement{Name: xml.Name{Space: "urn:example", Local: "outer"}})
	if err != nil {
		t.Fatal(err)
	}
	if !strings.Contains(out.String(), "<outer") {
		t.Errorf("EncodeElement ignored its start element: %q", out.String())
	}
}
