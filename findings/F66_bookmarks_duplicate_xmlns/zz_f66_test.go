// Place in: bookmarks/   Run: go test -vet=off -count=1 -run 'TestBaselineChannelExtensionsWellFormed' ./bookmarks/
package bookmarks_test

import (
	"bytes"
	"encoding/xml"
	"io"
	"testing"

	"mellium.im/xmpp/bookmarks"
)

// Well-formed XML may not repeat an attribute name on one element.
func baselineCheckNoDuplicateAttrs(t *testing.T, doc []byte) {
	t.Helper()
	d := xml.NewDecoder(bytes.NewReader(doc))
	for {
		tok, err := d.Token()
		if err == io.EOF {
			return
		}
		if err != nil {
			t.Fatalf("output %s is not well-formed: %v", doc, err)
		}
		start, ok := tok.(xml.StartElement)
		if !ok {
			continue
		}
		seen := make(map[xml.Name]bool)
		for _, attr := range start.Attr {
			if seen[attr.Name] {
				t.Errorf("output %s is not well-formed: element <%s> repeats attribute %q", doc, start.Name.Local, attr.Name.Local)
			}
			seen[attr.Name] = true
		}
	}
}

func TestBaselineChannelExtensionsWellFormed(t *testing.T) {
	c := bookmarks.Channel{
		Name:       "room",
		Extensions: []byte(`<state xmlns="http://myclient.example/bookmark/state" minimized="true"/>`),
	}
	marshaled, err := xml.Marshal(c)
	if err != nil {
		t.Fatalf("MarshalXML failed: %v", err)
	}
	baselineCheckNoDuplicateAttrs(t, marshaled)

	var buf bytes.Buffer
	e := xml.NewEncoder(&buf)
	if _, err = c.WriteXML(e); err != nil {
		t.Fatalf("WriteXML failed: %v", err)
	}
	if err = e.Flush(); err != nil {
		t.Fatal(err)
	}
	baselineCheckNoDuplicateAttrs(t, buf.Bytes())

	// The extensions must also survive a round trip unchanged in meaning: every
	// additional trip currently adds one more xmlns attribute.
	var c2 bookmarks.Channel
	if err = xml.Unmarshal(marshaled, &c2); err != nil {
		t.Fatalf("error decoding: %v", err)
	}
	again, err := xml.Marshal(c2)
	if err != nil {
		t.Fatalf("MarshalXML failed: %v", err)
	}
	if !bytes.Equal(marshaled, again) {
		t.Errorf("encoding is not stable across a round trip:\nfirst =%s\nsecond=%s", marshaled, again)
	}
}
