// Reproduction of finding F16 (properties C06/C09). Place in history/ (package
// history_test): go test -run TestF16 ./history
package history_test

import (
	"context"
	"encoding/xml"
	"sync/atomic"
	"testing"
	"time"

	"mellium.im/xmlstream"
	"mellium.im/xmpp/history"
	"mellium.im/xmpp/internal/xmpptest"
	"mellium.im/xmpp/mux"
	"mellium.im/xmpp/stanza"
)

// The application started a history query but is not (or no longer) pulling
// from the iterator: one result message blocks the serve loop (plain send on
// the iterator's channel while holding the handler's mutex).
func TestF16HistoryResultNotConsumed(t *testing.T) {
	h := history.NewHandler(nil)
	var chats int32
	cs := xmpptest.NewClientServer(
		xmpptest.ClientHandler(mux.New(stanza.NSClient, history.Handle(h),
			mux.MessageFunc(stanza.ChatMessage, xml.Name{}, func(stanza.Message, xmlstream.TokenReadEncoder) error {
				atomic.AddInt32(&chats, 1)
				return nil
			}))),
		xmpptest.ServerHandlerFunc(func(t xmlstream.TokenReadEncoder, start *xml.StartElement) error {
			time.Sleep(3 * time.Second) // the archive is slow to answer the query IQ
			return nil
		}),
	)
	ctx, cancel := context.WithTimeout(context.Background(), 5*time.Second)
	defer cancel()
	h.Fetch(ctx, history.Query{ID: "q1"}, cs.Server.LocalAddr(), cs.Client) // iterator not consumed
	time.Sleep(100 * time.Millisecond)
	msg := func(typ stanza.MessageType) stanza.Message {
		return stanza.Message{XMLName: xml.Name{Space: stanza.NSClient, Local: "message"}, To: cs.Client.LocalAddr(), Type: typ}
	}
	go cs.Server.Send(context.Background(), msg(stanza.ChatMessage).Wrap(nil))
	time.Sleep(200 * time.Millisecond)
	if atomic.LoadInt32(&chats) != 1 {
		t.Fatalf("setup: chat message not delivered (%d)", chats)
	}
	go cs.Server.Send(context.Background(), msg(stanza.NormalMessage).Wrap(
		xmlstream.Wrap(nil, xml.StartElement{Name: xml.Name{Space: history.NS, Local: "result"}, Attr: []xml.Attr{{Name: xml.Name{Local: "queryid"}, Value: "q1"}}})))
	time.Sleep(200 * time.Millisecond)
	go cs.Server.Send(context.Background(), msg(stanza.ChatMessage).Wrap(nil))
	time.Sleep(time.Second)
	if atomic.LoadInt32(&chats) != 2 {
		t.Errorf("one MAM result for an iterator nobody is pulling from wedges the serve loop: the following chat message was not processed")
	}
}
