// Reproduction of finding F16 (properties C06/C09). Place in ibb/ (package
// ibb_test): go test -run TestF16 ./ibb
package ibb_test

import (
	"context"
	"testing"
	"time"

	"mellium.im/xmpp/ibb"
	"mellium.im/xmpp/internal/xmpptest"
	"mellium.im/xmpp/jid"
	"mellium.im/xmpp/mux"
	"mellium.im/xmpp/ping"
	"mellium.im/xmpp/stanza"
)

// served reports whether the server side still answers a ping within 1s.
func f16served(cs *xmpptest.ClientServer) bool {
	ok := make(chan bool, 1)
	go func() {
		ctx, cancel := context.WithTimeout(context.Background(), time.Second)
		defer cancel()
		ok <- ping.Send(ctx, cs.Client, cs.Server.LocalAddr()) == nil
	}()
	select {
	case v := <-ok:
		return v
	case <-time.After(2 * time.Second):
		return false // even the write of the ping blocks: nobody reads the stream any more
	}
}

// (a) A listener exists but the application is not in Accept: one <open/> from
// the peer blocks the serve loop (handleOpen does a plain send on l.c).
func TestF16OpenWithoutAccept(t *testing.T) {
	sh, ch := &ibb.Handler{}, &ibb.Handler{}
	cs := xmpptest.NewClientServer(
		xmpptest.ServerHandler(mux.New(stanza.NSClient, ibb.Handle(sh), ping.Handle())),
		xmpptest.ClientHandler(mux.New(stanza.NSClient, ibb.Handle(ch))),
	)
	sh.Listen(cs.Server)
	if !f16served(cs) {
		t.Fatal("setup: server does not answer pings")
	}
	ctx, cancel := context.WithTimeout(context.Background(), time.Second)
	defer cancel()
	go ch.Open(ctx, cs.Client, cs.Server.LocalAddr())
	time.Sleep(200 * time.Millisecond)
	if !f16served(cs) {
		t.Errorf("after one <open/> with no pending Accept the serve loop no longer processes stanzas")
	}
}

// (b) An Expect whose context ended leaves its entry behind; the matching
// <open/> then blocks the serve loop forever while holding the listener lock.
func TestF16StaleExpect(t *testing.T) {
	sh, ch := &ibb.Handler{}, &ibb.Handler{}
	cs := xmpptest.NewClientServer(
		xmpptest.ServerHandler(mux.New(stanza.NSClient, ibb.Handle(sh), ping.Handle())),
		xmpptest.ClientHandler(mux.New(stanza.NSClient, ibb.Handle(ch))),
	)
	l := sh.Listen(cs.Server)
	go func() {
		for {
			if _, err := l.Accept(); err != nil {
				return
			}
		}
	}()
	ectx, ecancel := context.WithCancel(context.Background())
	ecancel()
	l.Expect(ectx, jid.JID{}, "sid-x")
	ctx, cancel := context.WithTimeout(context.Background(), time.Second)
	defer cancel()
	go ch.OpenIQ(ctx, stanza.IQ{To: cs.Server.LocalAddr()}, cs.Client, true, 0, "sid-x")
	time.Sleep(200 * time.Millisecond)
	if !f16served(cs) {
		t.Errorf("an <open/> matching a cancelled Expect wedges the serve loop")
	}
}
