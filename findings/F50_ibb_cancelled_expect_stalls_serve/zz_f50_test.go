// Reproduction of finding F50 (properties C06/C09/C15), written by an independent seeding agent
// against the unmodified code; repaired. Place in ibb/: go test -vet=off -count=1 -timeout 60s -run TestSeedBaselineCanceledExpectStallsServe ./ibb
// Place in: ibb/   Run: go test -vet=off -count=1 -run TestSeedBaselineCanceledExpectStallsServe ./ibb/
//
// FAILS on the unmodified library: an Expect call that ended with its context
// error leaves its entry in Listener.expected; when the expected open request
// arrives later, handleOpen blocks forever in `expect.c <- conn` (nobody is
// receiving any more) and the serve loop of that session never handles another
// stanza.

package ibb_test

import (
	"context"
	"errors"
	"testing"
	"time"

	"mellium.im/xmpp/ibb"
	"mellium.im/xmpp/internal/xmpptest"
	"mellium.im/xmpp/jid"
	"mellium.im/xmpp/mux"
	"mellium.im/xmpp/ping"
	"mellium.im/xmpp/stanza"
)

func TestSeedBaselineCanceledExpectStallsServe(t *testing.T) {
	clientIBB := &ibb.Handler{}
	serverIBB := &ibb.Handler{}
	clientM := mux.New(stanza.NSClient, ibb.Handle(clientIBB))
	serverM := mux.New(stanza.NSClient, ibb.Handle(serverIBB), ping.Handle())
	s := xmpptest.NewClientServer(
		xmpptest.ClientHandler(clientM),
		xmpptest.ServerHandler(serverM),
	)

	const sid = "1234"
	ln := serverIBB.Listen(s.Server)

	// An Expect call whose context ends before the stream is opened: one outcome,
	// the context error.
	ctx, cancel := context.WithCancel(context.Background())
	cancel()
	_, err := ln.Expect(ctx, jid.JID{}, sid)
	if !errors.Is(err, context.Canceled) {
		t.Fatalf("Expect: want context.Canceled, got %v", err)
	}

	// Somebody is accepting, so a stream that nobody "expects" any more has
	// somewhere to go.
	go func() {
		/* #nosec */
		ln.Accept()
	}()

	// Now the peer opens the stream that was expected earlier.
	go func() {
		openCtx, openCancel := context.WithTimeout(context.Background(), 2*time.Second)
		defer openCancel()
		/* #nosec */
		clientIBB.OpenIQ(openCtx, stanza.IQ{To: s.Server.LocalAddr()}, s.Client, true, 20, sid)
	}()
	time.Sleep(200 * time.Millisecond)

	// The server's serve loop must still be alive: a ping must be answered.
	// (The write itself blocks on the net.Pipe when the peer's serve loop no
	// longer reads, so do it on another goroutine.)
	pingErr := make(chan error, 1)
	go func() {
		pingCtx, pingCancel := context.WithTimeout(context.Background(), 3*time.Second)
		defer pingCancel()
		pingErr <- ping.Send(pingCtx, s.Client, s.Server.LocalAddr())
	}()
	select {
	case err := <-pingErr:
		if err != nil {
			t.Fatalf("server serve loop stalled after the open request for a canceled Expect: ping: %v", err)
		}
	case <-time.After(5 * time.Second):
		t.Fatalf("server serve loop stalled after the open request for a canceled Expect: ping never completed")
	}
}
