// Place in: jid/   Run: go test -vet=off -count=1 -run 'TestBaselineTrailingDotNotCanonical' ./jid
// FAILS on the unmodified library.
package jid_test

import (
	"testing"

	"mellium.im/xmpp/jid"
)

func TestBaselineTrailingDotNotCanonical(t *testing.T) {
	for _, in := range []string{
		"example.com..",         // two ASCII trailing dots: only one is stripped
		"example.com。",     // IDEOGRAPHIC FULL STOP, mapped to '.' by IDNA after the strip
		"example.com．",     // FULLWIDTH FULL STOP
		"example.com｡",     // HALFWIDTH IDEOGRAPHIC FULL STOP
		"juliet@1.2.3.4。/r", // not an IP literal for net.ParseIP, becomes "1.2.3.4."
		"..",                    // yields domainpart "." whose string form is then rejected
		"。",                // same, via mapping
	} {
		j, err := jid.Parse(in)
		if err != nil {
			continue // rejecting would be fine
		}
		s := j.String()
		j2, err := jid.Parse(s)
		if err != nil {
			t.Errorf("Parse(%q) = %q, but Parse(%q) fails: %v", in, s, s, err)
			continue
		}
		if !j.Equal(j2) {
			t.Errorf("Parse(%q) = %q is not canonical: re-parsing gives %q", in, s, j2)
		}
		j3, err := jid.New(j.Localpart(), j.Domainpart(), j.Resourcepart())
		if err != nil || !j3.Equal(j) {
			t.Errorf("New from the parts of %q gives %q (err=%v)", s, j3, err)
		}
	}

	// Same through WithDomain.
	base := jid.MustParse("juliet@example.net/r")
	w, err := base.WithDomain("example.com。")
	if err == nil {
		if p, err := jid.Parse(w.String()); err != nil || !p.Equal(w) {
			t.Errorf("WithDomain result %q is not canonical: re-parse gives %q, err=%v", w, p, err)
		}
	}
}
