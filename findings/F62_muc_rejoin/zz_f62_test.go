// Place in: muc/   Run: go test -vet=off -count=1 -run TestBaseline -v ./muc/   (all three tests FAIL on the unmodified library)
package muc_test

import (
	"context"
	"encoding/xml"
	"testing"
	"time"

	"mellium.im/xmlstream"
	"mellium.im/xmpp/internal/xmpptest"
	"mellium.im/xmpp/jid"
	"mellium.im/xmpp/muc"
	"mellium.im/xmpp/mux"
	"mellium.im/xmpp/stanza"
)

func echoServer() xmpptest.Option {
	return xmpptest.ServerHandlerFunc(func(t xmlstream.TokenReadEncoder, start *xml.StartElement) error {
		p, err := stanza.NewPresence(*start)
		if err != nil {
			return err
		}
		p.To, p.From = p.From, p.To
		_, err = xmlstream.Copy(t, p.Wrap(xmlstream.Wrap(
			nil,
			xml.StartElement{Name: xml.Name{Space: muc.NSUser, Local: "x"}},
		)))
		return err
	})
}

// After a successful join and before any unavailable presence, Joined must
// report true.
func TestBaselineJoinedAfterJoin(t *testing.T) {
	j := jid.MustParse("room@example.net/me")
	h := &muc.Client{}
	m := mux.New(stanza.NSClient, muc.HandleClient(h))
	s := xmpptest.NewClientServer(xmpptest.ClientHandler(m), echoServer())

	channel, err := h.Join(context.Background(), j, s.Client)
	if err != nil {
		t.Fatalf("error joining: %v", err)
	}
	if !channel.Joined() {
		t.Fatalf("Joined() reports false right after a successful join")
	}
}

// Leave then re-join with Channel.Join (documented use: "when you want to leave
// the room and join again later") must succeed once the room's self-presence
// arrives.
func TestBaselineRejoinAfterLeave(t *testing.T) {
	j := jid.MustParse("room@example.net/me")
	h := &muc.Client{}
	m := mux.New(stanza.NSClient, muc.HandleClient(h))
	s := xmpptest.NewClientServer(xmpptest.ClientHandler(m), echoServer())

	channel, err := h.Join(context.Background(), j, s.Client)
	if err != nil {
		t.Fatalf("error joining: %v", err)
	}
	if err = channel.Leave(context.Background(), ""); err != nil {
		t.Fatalf("error leaving: %v", err)
	}
	ctx, cancel := context.WithTimeout(context.Background(), 2*time.Second)
	defer cancel()
	if err = channel.Join(ctx); err != nil {
		t.Fatalf("re-join after leave did not succeed although the room sent self-presence: %v", err)
	}
}

// A muc#user message that is not an invitation (here: a room configuration
// change notification, status 104, and a <decline/>) must not be delivered to
// HandleInvite as if it were an invitation.
func TestBaselineNonInviteDelivered(t *testing.T) {
	h := &muc.Client{}
	got := make(chan muc.Invitation, 4)
	h.HandleInvite = func(i muc.Invitation) { got <- i }
	m := mux.New(stanza.NSClient, muc.HandleClient(h))
	s := xmpptest.NewClientServer(xmpptest.ClientHandler(m))

	err := s.Server.Send(context.Background(), stanza.Message{
		XMLName: xml.Name{Space: stanza.NSClient, Local: "message"},
		Type:    stanza.NormalMessage,
		From:    jid.MustParse("room@example.net"),
		To:      s.Client.LocalAddr(),
	}.Wrap(xmlstream.Wrap(
		xmlstream.Wrap(nil, xml.StartElement{Name: xml.Name{Local: "status"}, Attr: []xml.Attr{{Name: xml.Name{Local: "code"}, Value: "104"}}}),
		xml.StartElement{Name: xml.Name{Space: muc.NSUser, Local: "x"}},
	)))
	if err != nil {
		t.Fatal(err)
	}
	select {
	case i := <-got:
		t.Fatalf("a non-invitation muc#user message was delivered as an invitation: %+v", i)
	case <-time.After(500 * time.Millisecond):
	}
}
