// Place in the repo root (package dir "."). Run: go test -vet=off -count=1 -run 'TestBaseline' -v .
package xmpp_test

import (
	"bytes"
	"context"
	"io"
	"net"
	"strings"
	"testing"
	"time"

	"mellium.im/xmpp"
	"mellium.im/xmpp/jid"
	"mellium.im/xmpp/stanza"
)

func baselineBindNegotiator(f xmpp.StreamFeature) xmpp.Negotiator {
	return xmpp.NewNegotiator(func(*xmpp.Session, *xmpp.StreamConfig) xmpp.StreamConfig {
		return xmpp.StreamConfig{Features: []xmpp.StreamFeature{f}}
	})
}

// baselineBindPeer plays the server for a client that is doing resource
// binding: it serves a stream header and a features list with bind, then waits
// for the bind request, extracts its id and answers with whatever reply
// returns.
type baselineBindPeer struct {
	pre   *strings.Reader
	out   bytes.Buffer
	reply func(id string) string
	post  *strings.Reader
}

func (l *baselineBindPeer) Write(p []byte) (int, error) { return l.out.Write(p) }
func (l *baselineBindPeer) Read(p []byte) (int, error) {
	if l.pre.Len() > 0 {
		return l.pre.Read(p)
	}
	if l.post == nil {
		s := l.out.String()
		i := strings.Index(s, `<iq `)
		if i < 0 {
			return 0, io.EOF
		}
		s = s[i:]
		s = s[strings.Index(s, `id="`)+4:]
		l.post = strings.NewReader(l.reply(s[:strings.Index(s, `"`)]))
	}
	return l.post.Read(p)
}

const baselineServerHeader = `<stream:stream from='example.net' to='me@example.net/res' id='1' version='1.0' xmlns='jabber:client' xmlns:stream='http://etherx.jabber.org/streams'><stream:features><bind xmlns='urn:ietf:params:xml:ns:xmpp-bind'/></stream:features>`

// (1) Receiving side: the application's callback refuses the bind request with
// a stanza error. The reply must be an error IQ for the request's id and the
// session must not be marked as ready (no address was assigned).
func TestBaselineBindCallbackError(t *testing.T) {
	in := `<stream:stream to='example.net' from='me@example.net' version='1.0' xmlns='jabber:client' xmlns:stream='http://etherx.jabber.org/streams'><iq type='set' id='abc'><bind xmlns='urn:ietf:params:xml:ns:xmpp-bind'><resource>x</resource></bind></iq>`
	var out bytes.Buffer
	rw := struct {
		io.Reader
		io.Writer
	}{strings.NewReader(in), &out}
	s, err := xmpp.ReceiveSession(context.Background(), rw, xmpp.Authn, baselineBindNegotiator(xmpp.BindCustom(func(j jid.JID, r string) (jid.JID, error) {
		return jid.JID{}, stanza.Error{Type: stanza.Cancel, Condition: stanza.Conflict}
	})))
	sent := out.String()
	sent = sent[strings.Index(sent, "</stream:features>")+len("</stream:features>"):]
	t.Logf("reply: %s", sent)
	if !strings.Contains(sent, `type="error"`) || strings.Contains(sent, `type="result"`) {
		t.Errorf("callback refused the bind request but the reply is not an error IQ: %s", sent)
	}
	if err == nil && s.State()&xmpp.Ready == xmpp.Ready {
		t.Errorf("callback refused the bind request but the session is ready (state=%v)", s.State())
	}
}

// (2) Both sides are this library. The server's callback refuses the request;
// the client must not report success and must not lose its address.
func TestBaselineBindCallbackErrorEndToEnd(t *testing.T) {
	ctx, cancel := context.WithTimeout(context.Background(), 5*time.Second)
	defer cancel()
	clientConn, serverConn := net.Pipe()
	done := make(chan struct{})
	go func() {
		defer close(done)
		_, _ = xmpp.ReceiveSession(ctx, serverConn, xmpp.Authn, baselineBindNegotiator(xmpp.BindCustom(func(j jid.JID, r string) (jid.JID, error) {
			return jid.JID{}, stanza.Error{Type: stanza.Cancel, Condition: stanza.Conflict}
		})))
	}()
	origin := jid.MustParse("me@example.net/res")
	s, err := xmpp.NewSession(ctx, origin.Domain(), origin, clientConn, xmpp.Authn, baselineBindNegotiator(xmpp.BindResource()))
	<-done
	if err == nil {
		t.Errorf("server refused resource binding but the client reports success; LocalAddr()=%q state=%v", s.LocalAddr(), s.State())
	}
	if s != nil && s.LocalAddr().Equal(jid.JID{}) {
		t.Errorf("client lost its address: LocalAddr() is empty after a refused bind")
	}
}

// (3) Initiating side: a "result" reply that carries no <jid/> (malformed) is
// treated as success and wipes the session's own address.
func TestBaselineBindResultWithoutJID(t *testing.T) {
	rw := &baselineBindPeer{pre: strings.NewReader(baselineServerHeader), reply: func(id string) string {
		return `<iq type='result' id='` + id + `'/>`
	}}
	origin := jid.MustParse("me@example.net/res")
	s, err := xmpp.NewSession(context.Background(), origin.Domain(), origin, rw, xmpp.Authn, baselineBindNegotiator(xmpp.BindResource()))
	if err == nil {
		t.Errorf("malformed bind result (no jid) accepted: LocalAddr()=%q state=%v", s.LocalAddr(), s.State())
	}
}

// (4) Initiating side: an "error" reply without an <error/> child makes the
// negotiation return a non-nil error interface that wraps a nil *stanza.Error;
// calling Error() on it panics.
func TestBaselineBindErrorWithoutPayload(t *testing.T) {
	rw := &baselineBindPeer{pre: strings.NewReader(baselineServerHeader), reply: func(id string) string {
		return `<iq type='error' id='` + id + `'/>`
	}}
	origin := jid.MustParse("me@example.net/res")
	_, err := xmpp.NewSession(context.Background(), origin.Domain(), origin, rw, xmpp.Authn, baselineBindNegotiator(xmpp.BindResource()))
	if err == nil {
		t.Fatal("expected an error")
	}
	defer func() {
		if r := recover(); r != nil {
			t.Errorf("error returned for a bare error reply is a typed nil (%T) and panics when used: %v", err, r)
		}
	}()
	_ = err.Error()
}
