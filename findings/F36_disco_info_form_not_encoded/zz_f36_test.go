// Reproduction of finding F36 (property C19). Place in disco/ (package
// disco_test): go test -run TestF36 ./disco
package disco_test

import (
	"encoding/xml"
	"testing"

	"mellium.im/xmpp/disco"
	"mellium.im/xmpp/disco/info"
	"mellium.im/xmpp/form"
)

// The extended-information forms (XEP-0128) are decoded into Info.Form but the
// encoder never emitted them.
func TestF36InfoFormRoundTrip(t *testing.T) {
	in := disco.Info{
		Features: []info.Feature{{Var: "urn:example"}},
		Form: []form.Data{*form.New(
			form.Hidden("FORM_TYPE", form.Value("urn:xmpp:dataforms:softwareinfo")),
			form.Text("os", form.Value("Mac")),
		)},
	}
	out, err := xml.Marshal(in)
	if err != nil {
		t.Fatal(err)
	}
	var back disco.Info
	if err = xml.Unmarshal(out, &back); err != nil {
		t.Fatal(err)
	}
	if len(back.Form) != 1 {
		t.Fatalf("the form was lost: %s", out)
	}
	if v, _ := back.Form[0].GetString("os"); v != "Mac" {
		t.Errorf("wrong form value %q in %s", v, out)
	}
}
