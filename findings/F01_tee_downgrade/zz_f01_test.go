// Reproduction of finding F1 (property C02): place in the repository root
// (package xmpp_test) and run: go test -run TestF01 .
package xmpp_test

import (
	"context"
	"crypto/tls"
	"io"
	"net"
	"strings"
	"testing"
	"time"

	"mellium.im/xmpp"
	"mellium.im/xmpp/jid"
)

func f01run(t *testing.T, tee bool) (state xmpp.SessionState, err error, sent string) {
	cc, sc := net.Pipe()
	defer cc.Close()
	got := make(chan string, 1)
	go func() {
		defer sc.Close()
		buf := make([]byte, 4096)
		sc.SetDeadline(time.Now().Add(2 * time.Second))
		sc.Read(buf) // the client's stream header
		io.WriteString(sc, `<?xml version='1.0'?><stream:stream xmlns='jabber:client' xmlns:stream='http://etherx.jabber.org/streams' id='x' from='example.net' version='1.0'><stream:features/>`)
		n, _ := sc.Read(buf) // whatever the client sends next
		got <- string(buf[:n])
	}()
	cfg := xmpp.StreamConfig{Features: []xmpp.StreamFeature{xmpp.StartTLS(&tls.Config{ServerName: "example.net"})}}
	if tee {
		cfg.TeeIn = io.Discard
	}
	ctx, cancel := context.WithTimeout(context.Background(), 2*time.Second)
	defer cancel()
	s, err := xmpp.NewSession(ctx, jid.MustParse("example.net"), jid.MustParse("me@example.net"), cc, 0,
		xmpp.NewNegotiator(func(*xmpp.Session, *xmpp.StreamConfig) xmpp.StreamConfig { return cfg }))
	if s != nil {
		state = s.State()
	}
	cc.Close()
	select {
	case sent = <-got:
	case <-time.After(3 * time.Second):
	}
	return state, err, sent
}

func TestF01TeeDowngrade(t *testing.T) {
	for _, tee := range []bool{false, true} {
		state, err, sent := f01run(t, tee)
		if err == nil && state&xmpp.Ready != 0 && state&xmpp.Secure == 0 {
			t.Errorf("tee=%v: session became Ready in clear text (state %v)", tee, state)
		}
		if !strings.Contains(sent, "starttls") {
			t.Errorf("tee=%v: client did not attempt STARTTLS on an empty first features list, sent %q", tee, sent)
		}
	}
}
