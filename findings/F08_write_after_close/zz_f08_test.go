// Reproduction of finding F8 (property C10): place in the repository root
// (package xmpp_test) and run: go test -run TestF08 .
package xmpp_test

import (
	"bytes"
	"context"
	"encoding/xml"
	"errors"
	"io"
	"strings"
	"testing"

	"mellium.im/xmpp"
	"mellium.im/xmpp/internal/xmpptest"
	"mellium.im/xmpp/stanza"
)

func TestF08WriteAfterClose(t *testing.T) {
	var out bytes.Buffer
	rw := struct {
		io.Reader
		io.Writer
	}{strings.NewReader(""), &out}
	s := xmpptest.NewClientSession(0, rw)
	if err := s.Close(); err != nil {
		t.Fatal(err)
	}
	closed := out.String()
	ctx := context.Background()
	msg := stanza.Message{Type: stanza.ChatMessage}
	calls := map[string]error{
		"Send":          s.Send(ctx, msg.Wrap(nil)),
		"SendElement":   s.SendElement(ctx, msg.Wrap(nil), xml.StartElement{Name: xml.Name{Local: "message"}}),
		"Encode":        s.Encode(ctx, msg),
		"EncodeElement": s.EncodeElement(ctx, msg, xml.StartElement{Name: xml.Name{Local: "message"}}),
	}
	for name, err := range calls {
		if !errors.Is(err, xmpp.ErrOutputStreamClosed) {
			t.Errorf("%s after Close: got error %v, want ErrOutputStreamClosed", name, err)
		}
	}
	if out.String() != closed {
		t.Errorf("bytes written behind the closing tag: %q", strings.TrimPrefix(out.String(), closed))
	}
}
