// Reproduction of finding F9 (property C10): place in the repository root
// (package xmpp_test) and run: go test -race -run TestF09 .
package xmpp_test

import (
	"io"
	"testing"
	"time"

	"mellium.im/xmpp/internal/xmpptest"
)

// SetCloseDeadline replaces s.in.ctx/s.in.cancel without synchronisation while
// Serve reads s.in.ctx in its loop: the race detector reports it.
func TestF09CloseDeadlineRace(t *testing.T) {
	pr, pw := io.Pipe()
	rw := struct {
		io.Reader
		io.Writer
	}{pr, io.Discard}
	s := xmpptest.NewClientSession(0, rw)
	done := make(chan struct{})
	go func() {
		defer close(done)
		s.Serve(nil)
	}()
	for i := 0; i < 50; i++ {
		io.WriteString(pw, "<a xmlns='urn:example'/>")
		s.SetCloseDeadline(time.Now().Add(time.Hour))
	}
	pw.Close()
	<-done
}
