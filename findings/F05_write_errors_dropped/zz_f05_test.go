// Reproduction of finding F5 (property C04): place in the repository root
// (package xmpp_test) and run: go test -run TestF05 .
package xmpp_test

import (
	"context"
	"crypto/tls"
	"errors"
	"io"
	"strings"
	"testing"

	"mellium.im/sasl"
	"mellium.im/xmpp"
)

var errF05 = errors.New("write fault")

// failWriter fails every write that contains the marker.
type f05rw struct {
	io.Reader
	marker string
	hit    bool
}

func (w *f05rw) Write(p []byte) (int, error) {
	if strings.Contains(string(p), w.marker) {
		w.hit = true
		return 0, errF05
	}
	return len(p), nil
}

const f05hdr = `<?xml version='1.0'?><stream:stream xmlns='jabber:client' xmlns:stream='http://etherx.jabber.org/streams' to='example.net' version='1.0'>`

// Receiver side: the write of <proceed/> fails; the STARTTLS step must report it.
func TestF05ProceedWriteErrorDropped(t *testing.T) {
	rw := &f05rw{Reader: strings.NewReader(f05hdr + `<starttls xmlns='urn:ietf:params:xml:ns:xmpp-tls'/>`), marker: "<proceed"}
	var stepErr error
	ran := false
	orig := xmpp.StartTLS(&tls.Config{})
	wrapped := orig
	wrapped.Negotiate = func(ctx context.Context, s *xmpp.Session, data interface{}) (xmpp.SessionState, io.ReadWriter, error) {
		mask, _, err := orig.Negotiate(ctx, s, data)
		ran, stepErr = true, err
		return mask, nil, errors.New("stop here")
	}
	xmpp.ReceiveSession(context.Background(), rw, 0, xmpp.NewNegotiator(func(*xmpp.Session, *xmpp.StreamConfig) xmpp.StreamConfig {
		return xmpp.StreamConfig{Features: []xmpp.StreamFeature{wrapped}}
	}))
	if !ran || !rw.hit {
		t.Fatalf("setup: step ran=%v fault hit=%v", ran, rw.hit)
	}
	if stepErr == nil {
		t.Errorf("the write of <proceed/> failed but the STARTTLS step returned a nil error")
	}
}

// Receiver side: the write of <success/> fails; the SASL step must report it.
func TestF05SuccessWriteErrorDropped(t *testing.T) {
	// PLAIN "\x00me\x00secret"
	rw := &f05rw{Reader: strings.NewReader(f05hdr + `<auth xmlns='urn:ietf:params:xml:ns:xmpp-sasl' mechanism='PLAIN'>AG1lAHNlY3JldA==</auth>`), marker: "<success"}
	var stepErr error
	ran := false
	orig := xmpp.SASLServer(func(*sasl.Negotiator) bool { return true }, sasl.Plain)
	wrapped := orig
	wrapped.Negotiate = func(ctx context.Context, s *xmpp.Session, data interface{}) (xmpp.SessionState, io.ReadWriter, error) {
		mask, _, err := orig.Negotiate(ctx, s, data)
		ran, stepErr = true, err
		return mask, nil, errors.New("stop here")
	}
	xmpp.ReceiveSession(context.Background(), rw, xmpp.Secure, xmpp.NewNegotiator(func(*xmpp.Session, *xmpp.StreamConfig) xmpp.StreamConfig {
		return xmpp.StreamConfig{Features: []xmpp.StreamFeature{wrapped}}
	}))
	if !ran || !rw.hit {
		t.Fatalf("setup: step ran=%v fault hit=%v", ran, rw.hit)
	}
	if stepErr == nil {
		t.Errorf("the write of <success/> failed but the SASL step returned a nil error (Authn)")
	}
}
