// Reproduction of finding F43 (property C17). Place in styling/ (package
// styling_test): go test -run TestF43 ./styling
package styling_test

import (
	"fmt"
	"io"
	"strings"
	"testing"
	"testing/iotest"

	"mellium.im/xmpp/styling"
)

func f43Tokens(r io.Reader) string {
	d := styling.NewDecoder(r)
	var out []string
	for d.Next() {
		tok := d.Token()
		out = append(out, fmt.Sprintf("%q/%v/%d/%q", tok.Data, d.Style(), d.Quote(), tok.Info))
		if len(out) > 1000 {
			break
		}
	}
	return fmt.Sprint(out, d.Err())
}

// The token sequence must not depend on how the input is split across reads:
//   - a block quote start swallowed the white space after '>' only if it was
//     already buffered (one byte at a time: nested quotes and a code block
//     inside a quote were not recognised at all);
//   - inside a code block everything left in the buffer became one token when
//     EOF arrived together with the data, so the closing fence was missed.
func TestF43ChunkIndependence(t *testing.T) {
	for _, in := range []string{
		"> quote\n", ">  two spaces\n", "> > nested\n", "> ```\n> code\n> ```\n", ">\n", "> ",
		"```\ncode\n```\n", "```info\ncode\n```", "```\n```x\n", "```\n```\nafter\n",
	} {
		whole := f43Tokens(strings.NewReader(in))
		if got := f43Tokens(iotest.OneByteReader(strings.NewReader(in))); got != whole {
			t.Errorf("%q:\n one read:          %s\n one byte at a time: %s", in, whole, got)
		}
		if got := f43Tokens(iotest.DataErrReader(strings.NewReader(in))); got != whole {
			t.Errorf("%q:\n one read:          %s\n data with EOF:      %s", in, whole, got)
		}
	}
}
