// Reproduction of finding F40 (property C12). Place in stream/ (package
// stream_test): go test -run TestF40 ./stream
package stream_test

import (
	"encoding/xml"
	"strings"
	"testing"

	"mellium.im/xmpp/stream"
)

// The language of a received stream header is never recovered: encoding/xml
// reports xml:lang with the XML namespace URL as Space, the arm matched "xml".
func TestF40HeaderLang(t *testing.T) {
	const header = `<stream:stream xmlns='jabber:client' xmlns:stream='http://etherx.jabber.org/streams' version='1.0' xml:lang='de' id='x'>`
	tok, err := xml.NewDecoder(strings.NewReader(header)).Token()
	if err != nil {
		t.Fatal(err)
	}
	var info stream.Info
	if err = info.FromStartElement(tok.(xml.StartElement)); err != nil {
		t.Fatal(err)
	}
	if info.Lang != "de" {
		t.Errorf("language of the header not recovered: got %q, want %q", info.Lang, "de")
	}
}
