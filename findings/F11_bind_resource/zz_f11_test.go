// Reproduction of finding F11 (property C12). Place in the repository root
// (package xmpp_test): go test -run TestF11 .
package xmpp_test

import (
	"bytes"
	"context"
	"io"
	"strings"
	"testing"

	"mellium.im/xmpp"
	"mellium.im/xmpp/jid"
)

// The initiator must ask for exactly the resourcepart of its own address.
func TestF11BindRequestsOwnResource(t *testing.T) {
	var out bytes.Buffer
	in := `<?xml version='1.0'?><stream:stream xmlns='jabber:client' xmlns:stream='http://etherx.jabber.org/streams' id='x' from='example.net' version='1.0'><stream:features><bind xmlns='urn:ietf:params:xml:ns:xmpp-bind'/></stream:features>`
	rw := struct {
		io.Reader
		io.Writer
	}{strings.NewReader(in), &out}
	j := jid.MustParse("me@example.net/myres")
	xmpp.NewSession(context.Background(), j.Domain(), j, rw, xmpp.Secure|xmpp.Authn, xmpp.NewNegotiator(func(*xmpp.Session, *xmpp.StreamConfig) xmpp.StreamConfig {
		return xmpp.StreamConfig{Features: []xmpp.StreamFeature{xmpp.BindResource()}}
	}))
	if !strings.Contains(out.String(), "<resource>myres</resource>") {
		t.Errorf("bind request does not ask for the session's own resourcepart: %s", out.String())
	}
}
