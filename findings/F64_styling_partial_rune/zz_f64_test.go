// Place in: styling/   Run: go test -vet=off -count=1 -run TestBaseline ./styling
// These tests FAIL on the unmodified library.
package styling_test

import (
	"io"
	"reflect"
	"strings"
	"testing"
	"testing/iotest"

	"mellium.im/xmpp/styling"
)

type baseTok struct {
	Data, Info string
	Quote      uint
	Style      styling.Style
}

func baseDecode(r io.Reader) ([]baseTok, error) {
	d := styling.NewDecoder(r)
	var toks []baseTok
	for d.Next() {
		tok := d.Token()
		toks = append(toks, baseTok{string(tok.Data), string(tok.Info), d.Quote(), d.Style()})
	}
	return toks, d.Err()
}

// B1: a line longer than bufio.MaxScanTokenSize (64 KiB) makes the decoder stop
// with bufio.ErrTooLong; the data is lost (lossless clause, "very long lines").
func TestBaselineLongLine(t *testing.T) {
	in := strings.Repeat("a", 70000) + "\nsecond line\n"
	toks, err := baseDecode(strings.NewReader(in))
	var sb strings.Builder
	for _, tok := range toks {
		sb.WriteString(tok.Data)
	}
	if err != io.EOF || sb.String() != in {
		t.Errorf("err=%v, decoded %d of %d bytes", err, sb.Len(), len(in))
	}
}

// B2: a multi-byte Unicode whitespace rune after a block quote marker that is
// split across two reads changes the tokens (chunk independence clause).
func TestBaselineQuoteWhitespaceSplit(t *testing.T) {
	in := ">\t\u00a0b\n"
	want, _ := baseDecode(strings.NewReader(in))
	got, _ := baseDecode(iotest.OneByteReader(strings.NewReader(in)))
	if !reflect.DeepEqual(got, want) {
		t.Errorf("one byte at a time: %q\nsingle read:        %q", got, want)
	}
}

// B3 (adjacent to the property, deterministic): the info string of a code fence
// that directly follows the end of a block quote is dropped, because the token
// is delivered through the insertBlockClose path of Next which never sets Info.
func TestBaselineInfoAfterQuote(t *testing.T) {
	toks, _ := baseDecode(strings.NewReader("> a\n```info\ncode\n```\n"))
	for _, tok := range toks {
		if tok.Style&styling.BlockPreStart != 0 && tok.Info != "info" {
			t.Errorf("pre block start token %q has Info %q, want %q", tok.Data, tok.Info, "info")
		}
	}
}
