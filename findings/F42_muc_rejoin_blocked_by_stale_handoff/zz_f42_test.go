// Reproduction of finding F42 (properties C06/C18, open). Place in muc/
// (package muc_test): go test -run TestF42 ./muc
package muc_test

import (
	"context"
	"encoding/xml"
	"errors"
	"sync/atomic"
	"testing"
	"time"

	"mellium.im/xmlstream"
	"mellium.im/xmpp/internal/xmpptest"
	"mellium.im/xmpp/jid"
	"mellium.im/xmpp/muc"
	"mellium.im/xmpp/mux"
	"mellium.im/xmpp/stanza"
)

// A join that the room refuses leaves its hand-off entry in the channel's
// one-slot queue; the next Join on the same Channel blocks on that queue
// before it has sent anything, until its context ends (for ever with
// context.Background()).
func TestF42RejoinAfterRefusedJoin(t *testing.T) {
	j := jid.MustParse("room@example.net/me")
	h := &muc.Client{}
	m := mux.New(stanza.NSClient, muc.HandleClient(h))
	var requests int32
	s := xmpptest.NewClientServer(
		xmpptest.ClientHandler(m),
		xmpptest.ServerHandlerFunc(func(t xmlstream.TokenReadEncoder, start *xml.StartElement) error {
			p, err := stanza.NewPresence(*start)
			if err != nil {
				return err
			}
			p.To, p.From = p.From, p.To
			if atomic.AddInt32(&requests, 1) == 1 {
				p.Type = stanza.ErrorPresence
				se := stanza.Error{Type: stanza.Modify, Condition: stanza.NotAcceptable}
				_, err = xmlstream.Copy(t, p.Wrap(xmlstream.MultiReader(
					xmlstream.Wrap(nil, xml.StartElement{Name: xml.Name{Space: muc.NS, Local: "x"}}),
					se.TokenReader(),
				)))
				return err
			}
			_, err = xmlstream.Copy(t, p.Wrap(xmlstream.Wrap(
				nil,
				xml.StartElement{Name: xml.Name{Space: muc.NSUser, Local: "x"}},
			)))
			return err
		}),
	)

	channel, err := h.Join(context.Background(), j, s.Client)
	if !errors.Is(err, stanza.Error{}) {
		t.Fatalf("expected the room's stanza error for the first join, got: %v", err)
	}
	ctx, cancel := context.WithTimeout(context.Background(), 2*time.Second)
	defer cancel()
	if err = channel.Join(ctx); err != nil {
		t.Errorf("second join on the same channel: %v (join requests that reached the room: %d, want 2)", err, atomic.LoadInt32(&requests))
	}
}
