// Reproduction of findings F13 and F14 (property C09). Place in the repository
// root (package xmpp_test): go test -run 'TestF13|TestF14' .
package xmpp_test

import (
	"context"
	"encoding/xml"
	"testing"
	"time"

	"mellium.im/xmlstream"
	"mellium.im/xmpp"
	"mellium.im/xmpp/commands"
	"mellium.im/xmpp/internal/xmpptest"
	"mellium.im/xmpp/stanza"
)

// f13server answers every IQ with a result whose first child token is
// whitespace character data followed by the given payload element.
func f13server(payload xml.Name) xmpp.HandlerFunc {
	return func(t xmlstream.TokenReadEncoder, start *xml.StartElement) error {
		iq, err := stanza.NewIQ(*start)
		if err != nil {
			return err
		}
		res := iq.Result(nil)
		st, _ := res.Token()
		t.EncodeToken(st)
		t.EncodeToken(xml.CharData("\n  "))
		p := xml.StartElement{Name: payload}
		t.EncodeToken(p)
		t.EncodeToken(p.End())
		return t.EncodeToken(st.(xml.StartElement).End())
	}
}

func f13run(t *testing.T, f func(ctx context.Context, s *xmpp.Session) error) (err error, panicked interface{}) {
	cs := xmpptest.NewClientServer(xmpptest.ServerHandlerFunc(f13server(xml.Name{Space: commands.NS, Local: "command"})))
	ctx, cancel := context.WithTimeout(context.Background(), 2*time.Second)
	defer cancel()
	func() {
		defer func() { panicked = recover() }()
		err = f(ctx, cs.Client)
	}()
	return err, panicked
}

func TestF13UnmarshalIQWhitespaceBeforePayload(t *testing.T) {
	_, p := f13run(t, func(ctx context.Context, s *xmpp.Session) error {
		v := struct {
			XMLName xml.Name
		}{}
		return s.UnmarshalIQElement(ctx, xmlstream.Wrap(nil, xml.StartElement{Name: xml.Name{Space: "urn:example", Local: "q"}}), stanza.IQ{Type: stanza.GetIQ}, &v)
	})
	if p != nil {
		t.Errorf("UnmarshalIQ panicked on a reply with whitespace before the payload: %v", p)
	}
}

func TestF14CommandsExecuteWhitespaceBeforePayload(t *testing.T) {
	_, p := f13run(t, func(ctx context.Context, s *xmpp.Session) error {
		_, _, err := commands.Command{Node: "n"}.Execute(ctx, nil, s)
		return err
	})
	if p != nil {
		t.Errorf("commands.Execute panicked on a reply with whitespace before the payload: %v", p)
	}
}
