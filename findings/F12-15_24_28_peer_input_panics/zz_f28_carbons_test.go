// Reproduction of finding F28 (property C09). Place in carbons/ : go test -run TestF28 ./carbons
package carbons_test

import (
	"encoding/xml"
	"strings"
	"testing"

	"mellium.im/xmlstream"
	"mellium.im/xmpp/carbons"
	"mellium.im/xmpp/stanza"
)

func TestF28CarbonsWhitespaceChild(t *testing.T) {
	h := carbons.Handler{F: func(stanza.Message, bool, xml.TokenReader) error { return nil }}
	d := xml.NewDecoder(strings.NewReader(`<message xmlns='jabber:client'> <sent xmlns='urn:xmpp:carbons:2'><forwarded xmlns='urn:xmpp:forward:0'/></sent></message>`))
	defer func() {
		if p := recover(); p != nil {
			t.Errorf("HandleMessage panicked on a whitespace child: %v", p)
		}
	}()
	h.HandleMessage(stanza.Message{}, struct {
		xml.TokenReader
		xmlstream.Encoder
	}{TokenReader: d})
}
