// Reproduction of finding F28 (property C09). Place in stanza/ : go test -run TestF28 ./stanza
package stanza_test

import (
	"encoding/xml"
	"strings"
	"testing"

	"mellium.im/xmpp/stanza"
)

func TestF28UnmarshalErrorWhitespaceChild(t *testing.T) {
	d := xml.NewDecoder(strings.NewReader(`<iq type='error'> <error type='cancel'><service-unavailable xmlns='urn:ietf:params:xml:ns:xmpp-stanzas'/></error></iq>`))
	d.Token()
	defer func() {
		if p := recover(); p != nil {
			t.Errorf("UnmarshalError panicked on a whitespace child: %v", p)
		}
	}()
	if _, err := stanza.UnmarshalError(d); err != nil {
		t.Errorf("error payload after whitespace not found: %v", err)
	}
}
