// Reproduction of finding F28 (property C09). Place in muc/ (package muc, internal): go test -run TestF28 ./muc
package muc

import (
	"encoding/xml"
	"strings"
	"testing"
)

func TestF28ConfigWhitespaceChild(t *testing.T) {
	defer func() {
		if p := recover(); p != nil {
			t.Errorf("config.UnmarshalXML panicked on a whitespace child: %v", p)
		}
	}()
	c := config{}
	xml.NewDecoder(strings.NewReader(`<x xmlns='http://jabber.org/protocol/muc'> <password>p</password></x>`)).Decode(&c)
}
