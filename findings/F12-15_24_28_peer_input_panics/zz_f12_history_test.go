// Reproduction of finding F12 (property C09). Place in history/ : go test -run TestF12 ./history
package history_test

import (
	"encoding/xml"
	"strings"
	"testing"

	"mellium.im/xmlstream"
	"mellium.im/xmpp/history"
	"mellium.im/xmpp/stanza"
)

func TestF12HistoryHandlerChardataChild(t *testing.T) {
	h := history.NewHandler(nil)
	d := xml.NewDecoder(strings.NewReader(`<message xmlns='jabber:client'> <result xmlns='urn:xmpp:mam:2' queryid='x'/></message>`))
	defer func() {
		if p := recover(); p != nil {
			t.Errorf("HandleMessage panicked on a message whose first child is whitespace: %v", p)
		}
	}()
	h.HandleMessage(stanza.Message{}, struct {
		xml.TokenReader
		xmlstream.Encoder
	}{TokenReader: d})
}
