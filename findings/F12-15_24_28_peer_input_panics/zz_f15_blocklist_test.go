// Reproduction of findings F15 and F28 (property C09). Place in blocklist/ : go test -run TestF15 ./blocklist
package blocklist_test

import (
	"encoding/xml"
	"strings"
	"testing"

	"mellium.im/xmlstream"
	"mellium.im/xmpp/blocklist"
	"mellium.im/xmpp/stanza"
)

func f15run(t *testing.T, payload string) {
	d := xml.NewDecoder(strings.NewReader(payload))
	tok, _ := d.Token()
	start := tok.(xml.StartElement)
	defer func() {
		if p := recover(); p != nil {
			t.Errorf("HandleIQ panicked on %s: %v", payload, p)
		}
	}()
	blocklist.Handler{}.HandleIQ(stanza.IQ{Type: stanza.SetIQ}, struct {
		xml.TokenReader
		xmlstream.Encoder
	}{TokenReader: xmlstream.Inner(d)}, &start)
}

func TestF15BlocklistPush(t *testing.T) {
	f15run(t, `<block xmlns='urn:xmpp:blocking'><item/></block>`)
	f15run(t, `<block xmlns='urn:xmpp:blocking'><item jid='@@'/></block>`)
	f15run(t, `<block xmlns='urn:xmpp:blocking'> <item jid='a@example.net'/></block>`)
}
