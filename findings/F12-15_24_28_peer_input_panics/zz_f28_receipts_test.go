// Reproduction of finding F28 (property C09). Place in receipts/ : go test -run TestF28 ./receipts
package receipts_test

import (
	"encoding/xml"
	"strings"
	"testing"

	"mellium.im/xmlstream"
	"mellium.im/xmpp/receipts"
	"mellium.im/xmpp/stanza"
)

func TestF28ReceiptsWhitespaceChild(t *testing.T) {
	h := &receipts.Handler{}
	d := xml.NewDecoder(strings.NewReader(`<message xmlns='jabber:client'> <received xmlns='urn:xmpp:receipts' id='1'/></message>`))
	defer func() {
		if p := recover(); p != nil {
			t.Errorf("HandleMessage panicked on a whitespace child: %v", p)
		}
	}()
	h.HandleMessage(stanza.Message{}, struct {
		xml.TokenReader
		xmlstream.Encoder
	}{TokenReader: d})
}
