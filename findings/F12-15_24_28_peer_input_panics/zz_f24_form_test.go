// Reproduction of finding F24 (properties C09/C19). Place in form/ : go test -run TestF24 ./form
package form_test

import (
	"testing"

	"mellium.im/xmlstream"
	"mellium.im/xmpp/form"
)

func TestF24TextMultiTrailingNewline(t *testing.T) {
	data := form.New(form.TextMulti("a"))
	if _, err := data.Set("a", "x\n"); err != nil {
		t.Fatal(err)
	}
	defer func() {
		if p := recover(); p != nil {
			t.Errorf("submitting a text-multi value that ends in a newline panicked: %v", p)
		}
	}()
	sub, _ := data.Submit()
	xmlstream.Copy(xmlstream.Discard(), sub)
}
