// Reproduction of finding F34 (properties C19/C09). Place in history/ (package
// history_test): go test -run TestF34 ./history
package history_test

import (
	"encoding/xml"
	"strings"
	"testing"

	"mellium.im/xmpp/history"
)

// A MAM query without a data form (the form is optional).
func TestF34QueryWithoutForm(t *testing.T) {
	defer func() {
		if p := recover(); p != nil {
			t.Errorf("unmarshalling a query without a form panicked: %v", p)
		}
	}()
	var q history.Query
	if err := xml.NewDecoder(strings.NewReader(`<query xmlns='urn:xmpp:mam:2' queryid='q'/>`)).Decode(&q); err != nil {
		t.Errorf("unexpected error: %v", err)
	}
}
