// Reproduction of finding F39 (properties C04/C09/C12). Place in
// internal/stream/ (package stream_test): go test -run TestF39 ./internal/stream
package stream_test

import (
	"context"
	"encoding/xml"
	"errors"
	"strings"
	"testing"

	intstream "mellium.im/xmpp/internal/stream"
	"mellium.im/xmpp/stream"
)

// A peer that answers our stream header with a stream error (RFC 6120 §4.9.1.2
// allows that: e.g. host-unknown before sending its own header) must make the
// negotiation fail with that error.
func TestF39StreamErrorInsteadOfHeader(t *testing.T) {
	for _, in := range []string{
		`<stream:error xmlns:stream='http://etherx.jabber.org/streams'><host-unknown xmlns='urn:ietf:params:xml:ns:xmpp-streams'/></stream:error>`,
		`<?xml version='1.0'?><stream:error xmlns:stream='http://etherx.jabber.org/streams'><host-unknown xmlns='urn:ietf:params:xml:ns:xmpp-streams'/><text xmlns='urn:ietf:params:xml:ns:xmpp-streams'>no</text></stream:error>`,
	} {
		func() {
			defer func() {
				if p := recover(); p != nil {
					t.Errorf("Expect panicked on a stream error sent instead of a header: %v", p)
				}
			}()
			var info stream.Info
			err := intstream.Expect(context.Background(), &info, xml.NewDecoder(strings.NewReader(in)), false, false)
			if !errors.Is(err, stream.HostUnknown) {
				t.Errorf("want the peer's stream error, got %v", err)
			}
		}()
	}
}
