// Reproductions of findings F53 (handler io.EOF ends the session silently) and F54 (namespaced id
// attribute), property C07; StreamErrorNeverFlushed is F32 again (open). Written by an independent
// seeding agent against the unmodified code. Place in the module root:
// go test -vet=off -count=1 -run TestBaselineC07 -v .
// Place in the repo root (package dir "."); run: go test -vet=off -count=1 -run 'TestBaselineC07' -v .
// These tests FAIL on the unmodified library.
package xmpp_test

import (
	"bytes"
	"encoding/xml"
	"errors"
	"io"
	"strings"
	"testing"

	"mellium.im/xmlstream"
	"mellium.im/xmpp"
	"mellium.im/xmpp/internal/xmpptest"
	"mellium.im/xmpp/mux"
	"mellium.im/xmpp/stanza"
)

func baselineServe(in string, h xmpp.Handler) (string, error) {
	out := &bytes.Buffer{}
	s := xmpptest.NewClientSession(0, struct {
		io.Reader
		io.Writer
	}{Reader: strings.NewReader(in), Writer: out})
	err := s.Serve(h)
	return out.String(), err
}

// replyCount returns how many top level result/error IQs were written per id.
func baselineReplies(out string) map[string]int {
	seen := make(map[string]int)
	d := xml.NewDecoder(strings.NewReader(`<stream:stream xmlns="jabber:client" xmlns:stream="http://etherx.jabber.org/streams">` + out))
	depth := 0
	for {
		tok, err := d.Token()
		if err != nil {
			break
		}
		switch tk := tok.(type) {
		case xml.StartElement:
			depth++
			if depth == 2 && tk.Name.Local == "iq" {
				var id, typ string
				for _, a := range tk.Attr {
					if a.Name.Space != "" {
						continue
					}
					switch a.Name.Local {
					case "id":
						id = a.Value
					case "type":
						typ = a.Value
					}
				}
				if typ == "result" || typ == "error" {
					seen[id]++
				}
			}
		case xml.EndElement:
			depth--
		}
	}
	return seen
}

// A get IQ without a payload that is routed through the multiplexer makes
// mux.iqRouter return io.EOF. Serve treats io.EOF from handleInputStream as
// "the peer closed the stream": it returns nil and closes the session without a
// reply and without a stream error; the IQ that follows is never looked at.
// The same happens for every handler that returns a bare io.EOF (for instance
// from decoding an empty payload).
func TestBaselineC07EmptyIQThroughMux(t *testing.T) {
	const in = `<iq type="get" id="empty1" from="juliet@example.org/balcony"/>` +
		`<iq type="get" id="next2" from="juliet@example.org/balcony"><query xmlns="urn:example:q"/></iq>`
	out, err := baselineServe(in, mux.New(stanza.NSClient))
	t.Logf("Serve error: %v; output: %s", err, out)
	seen := baselineReplies(out)
	if err == nil {
		for _, id := range []string{"empty1", "next2"} {
			if seen[id] != 1 {
				t.Errorf("IQ %q answered %d times although Serve ended without any error", id, seen[id])
			}
		}
	}
}

func TestBaselineC07HandlerReturnsEOF(t *testing.T) {
	const in = `<iq type="set" id="s1" from="juliet@example.org/balcony"><query xmlns="urn:example:q"/></iq>` +
		`<iq type="get" id="s2" from="juliet@example.org/balcony"><query xmlns="urn:example:q"/></iq>`
	out, err := baselineServe(in, xmpp.HandlerFunc(func(t xmlstream.TokenReadEncoder, start *xml.StartElement) error {
		return io.EOF
	}))
	t.Logf("Serve error: %v; output: %s", err, out)
	seen := baselineReplies(out)
	if err == nil && (seen["s1"] != 1 || seen["s2"] != 1) {
		t.Errorf("handler error io.EOF: no reply (%v), and the session ended as if the peer had closed the stream (Serve returned nil, no stream error)", seen)
	}
}

// The session finds id, type and from by local name only (getIDTyp, attr.Get)
// while stanza.NewIQ ignores attributes in a foreign namespace. For a request
// that carries e.g. xml:id in front of its real id the session answers with the
// wrong id, and if the multiplexer is used its fallback reply (right id) is not
// recognized so a second reply (wrong id) is added.
func TestBaselineC07NamespacedIDAttr(t *testing.T) {
	const in = `<iq xml:id="zzz" type="get" id="abc" from="juliet@example.org/balcony"><query xmlns="urn:example:q"/></iq>`
	for name, h := range map[string]xmpp.Handler{"nomux": nil, "mux": mux.New(stanza.NSClient)} {
		t.Run(name, func(t *testing.T) {
			out, err := baselineServe(in, h)
			t.Logf("Serve error: %v; output: %s", err, out)
			seen := baselineReplies(out)
			if seen["abc"] != 1 || len(seen) != 1 {
				t.Errorf("want exactly one reply with id abc, got %v", seen)
			}
		})
	}
}

// A handler that returns an error makes Serve "send" a stream error, but
// sendError only writes it into the buffered encoder and closeSession then
// writes </stream:stream> straight to the connection: the stream error never
// reaches the peer, who sees an unanswered IQ and a plain stream close.
func TestBaselineC07StreamErrorNeverFlushed(t *testing.T) {
	const in = `<iq type="get" id="q1" from="juliet@example.org/balcony"><query xmlns="urn:example:q"/></iq>`
	myErr := errors.New("handler failed")
	out, err := baselineServe(in, xmpp.HandlerFunc(func(t xmlstream.TokenReadEncoder, start *xml.StartElement) error {
		return myErr
	}))
	t.Logf("Serve error: %v; output: %s", err, out)
	if baselineReplies(out)["q1"] == 0 && !strings.Contains(out, "stream:error") {
		t.Errorf("IQ q1 got no reply and no stream error was put on the wire: %q", out)
	}
}
