// Reproduction of finding F4 (property C04): place in the repository root
// (package xmpp_test) and run: go test -run TestF04 .
package xmpp_test

import (
	"context"
	"encoding/xml"
	"errors"
	"io"
	"strings"
	"testing"

	"mellium.im/xmlstream"
	"mellium.im/xmpp"
	"mellium.im/xmpp/jid"
)

var errF04 = errors.New("voluntary feature failed")

func f04feature() xmpp.StreamFeature {
	return xmpp.StreamFeature{
		Name: xml.Name{Space: "urn:example:f04", Local: "opt"},
		List: func(ctx context.Context, e xmlstream.TokenWriter, start xml.StartElement) (bool, error) {
			return false, nil
		},
		Parse: func(ctx context.Context, d *xml.Decoder, start *xml.StartElement) (bool, interface{}, error) {
			return false, nil, d.Skip()
		},
		Negotiate: func(ctx context.Context, s *xmpp.Session, data interface{}) (xmpp.SessionState, io.ReadWriter, error) {
			return 0, nil, errF04
		},
	}
}

// One voluntary feature whose negotiation step fails: the error must come back.
func TestF04VoluntaryFeatureErrorSwallowed(t *testing.T) {
	in := strings.NewReader(`<?xml version='1.0'?><stream:stream xmlns='jabber:client' xmlns:stream='http://etherx.jabber.org/streams' id='x' from='example.net' version='1.0'><stream:features><opt xmlns='urn:example:f04'/></stream:features>`)
	rw := struct {
		io.Reader
		io.Writer
	}{in, io.Discard}
	j := jid.MustParse("me@example.net")
	s, err := xmpp.NewSession(context.Background(), j.Domain(), j, rw, 0, xmpp.NewNegotiator(func(*xmpp.Session, *xmpp.StreamConfig) xmpp.StreamConfig {
		return xmpp.StreamConfig{Features: []xmpp.StreamFeature{f04feature()}}
	}))
	if err == nil {
		t.Errorf("negotiation step failed with %q but NewSession returned a nil error (state %v)", errF04, s.State())
	}
}
