// Reproduction of finding F33 (property C19). Place in receipts/ (package
// receipts_test): go test -run TestF33 ./receipts
package receipts_test

import (
	"context"
	"encoding/xml"
	"testing"

	"mellium.im/xmlstream"
	"mellium.im/xmpp/internal/xmpptest"
	"mellium.im/xmpp/receipts"
)

// A reader whose first token is not a start element must yield an error.
func TestF33SendMessageNonElement(t *testing.T) {
	cs := xmpptest.NewClientServer()
	defer cs.Close()
	h := &receipts.Handler{}
	defer func() {
		if p := recover(); p != nil {
			t.Errorf("SendMessage panicked on a reader that does not start with an element: %v", p)
		}
	}()
	err := h.SendMessage(context.Background(), cs.Client, xmlstream.MultiReader(xmlstream.Token(xml.CharData("text")), xmlstream.Token(xml.CharData("more"))))
	if err == nil {
		t.Errorf("expected an error")
	}
}
