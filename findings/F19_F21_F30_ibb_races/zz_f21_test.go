// Reproduction of findings F19, F21 and F30 (properties C15/C06/C09). Place in
// ibb/ (package ibb_test): go test -race -run 'TestF19|TestF21|TestF30' ./ibb
package ibb_test

import (
	"context"
	"encoding/xml"
	"testing"
	"time"

	"mellium.im/xmlstream"

	"mellium.im/xmpp/ibb"
	"mellium.im/xmpp/internal/xmpptest"
	"mellium.im/xmpp/mux"
	"mellium.im/xmpp/stanza"
)

func f21pair(t *testing.T) (cs *xmpptest.ClientServer, ch, sh *ibb.Handler, ln *ibb.Listener) {
	sh, ch = &ibb.Handler{}, &ibb.Handler{}
	cs = xmpptest.NewClientServer(
		xmpptest.ServerHandler(mux.New(stanza.NSClient, ibb.Handle(sh))),
		xmpptest.ClientHandler(mux.New(stanza.NSClient, ibb.Handle(ch))),
	)
	ln = sh.Listen(cs.Server)
	return
}

// F21: the handler reads h.streams without its mutex (data packets, close)
// while Open/addStream writes it from another goroutine: run with -race.
// The serve goroutine's side is driven directly through HandleIQ.
func TestF21StreamsMapRace(t *testing.T) {
	cs, ch, _, ln := f21pair(t)
	go func() {
		for {
			if _, err := ln.Accept(); err != nil {
				return
			}
		}
	}()
	done := make(chan struct{})
	stop := make(chan struct{})
	go func() {
		defer close(done)
		for {
			select {
			case <-stop:
				return
			default:
			}
			payload := xml.StartElement{Name: xml.Name{Space: ibb.NS, Local: "data"}, Attr: []xml.Attr{
				{Name: xml.Name{Local: "sid"}, Value: "unknown"}, {Name: xml.Name{Local: "seq"}, Value: "0"},
			}}
			r := xmlstream.MultiReader(xmlstream.Token(xml.CharData("AAAA")), xmlstream.Token(payload.End()))
			ch.HandleIQ(stanza.IQ{Type: stanza.SetIQ, ID: "1"}, struct {
				xml.TokenReader
				xmlstream.Encoder
			}{TokenReader: r, Encoder: discardEncoder{}}, &payload)
		}
	}()
	for i := 0; i < 10; i++ {
		ctx, cancel := context.WithTimeout(context.Background(), 2*time.Second)
		_, err := ch.Open(ctx, cs.Client, cs.Server.LocalAddr())
		cancel()
		if err != nil {
			t.Fatal(err)
		}
	}
	close(stop)
	<-done
}

// F19: lost wake-up. Read checks that the buffer is empty, releases the lock
// and only then waits on the unbuffered readReady channel; a packet handled in
// between is stored but its non-blocking notification finds no waiter, so Read
// sleeps although data is buffered (until the next packet, or forever for the
// last one). Stress test: one byte per packet, the reader must see every byte
// within the deadline.
func TestF19LostWakeup(t *testing.T) {
	cs, ch, _, ln := f21pair(t)
	const n = 400
	got := make(chan int, 1)
	go func() {
		c, err := ln.Accept()
		if err != nil {
			return
		}
		buf := make([]byte, 1)
		total := 0
		for total < n {
			k, err := c.Read(buf)
			total += k
			if err != nil {
				break
			}
		}
		got <- total
	}()
	ctx, cancel := context.WithTimeout(context.Background(), 5*time.Second)
	defer cancel()
	conn, err := ch.Open(ctx, cs.Client, cs.Server.LocalAddr())
	if err != nil {
		t.Fatal(err)
	}
	for i := 0; i < n; i++ {
		conn.Write([]byte("x"))
		conn.Flush()
	}
	select {
	case total := <-got:
		if total != n {
			t.Errorf("reader got %d of %d bytes", total, n)
		}
	case <-time.After(3 * time.Second):
		t.Errorf("reader is asleep although all %d bytes were delivered to its buffer (lost wake-up)", n)
	}
}

type discardEncoder struct{}

func (discardEncoder) EncodeToken(xml.Token) error                       { return nil }
func (discardEncoder) Encode(interface{}) error                          { return nil }
func (discardEncoder) EncodeElement(interface{}, xml.StartElement) error { return nil }

// F21b: a peer-initiated close flushes the write buffer on the serve goroutine
// (Conn.flush(t) does not take writeLock) while the application may be in
// Write under writeLock: run with -race.
func TestF21FlushWithoutWriteLock(t *testing.T) {
	ch := &ibb.Handler{}
	cs := xmpptest.NewClientServer(
		xmpptest.ClientHandler(mux.New(stanza.NSClient, ibb.Handle(ch))),
		xmpptest.ServerHandlerFunc(func(t xmlstream.TokenReadEncoder, start *xml.StartElement) error {
			iq, err := stanza.NewIQ(*start)
			if err != nil || (iq.Type != stanza.SetIQ && iq.Type != stanza.GetIQ) {
				return nil
			}
			_, err = xmlstream.Copy(t, iq.Result(nil))
			return err
		}),
	)
	ctx, cancel := context.WithTimeout(context.Background(), 2*time.Second)
	defer cancel()
	conn, err := ch.OpenIQ(ctx, stanza.IQ{To: cs.Server.LocalAddr()}, cs.Client, true, 1024, "sid-w")
	if err != nil {
		t.Fatal(err)
	}
	done := make(chan struct{})
	go func() {
		defer close(done)
		for i := 0; i < 2000; i++ {
			conn.Write([]byte("x")) // stays in the 1024 byte buffer: no stanza is sent
		}
	}()
	payload := xml.StartElement{Name: xml.Name{Space: ibb.NS, Local: "close"}, Attr: []xml.Attr{{Name: xml.Name{Local: "sid"}, Value: "sid-w"}}}
	r := xmlstream.MultiReader(xmlstream.Token(payload.End()))
	ch.HandleIQ(stanza.IQ{Type: stanza.SetIQ, ID: "1"}, struct {
		xml.TokenReader
		xmlstream.Encoder
	}{TokenReader: r, Encoder: discardEncoder{}}, &payload)
	<-done
}
