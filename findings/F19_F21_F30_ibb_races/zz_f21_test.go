// Reproduction of findings F19, F21 and F30 (properties C15/C06/C09). Place in
// ibb/ (package ibb_test): go test -race -run 'TestF19|TestF21|TestF30' ./ibb
package ibb_test

import (
	"context"
	"encoding/xml"
	"testing"
	"time"

	"mellium.im/xmlstream"

	"mellium.im/xmpp/ibb"
	"mellium.im/xmpp/internal/xmpptest"
	"mellium.im/xmpp/mux"
	"mellium.im/xmpp/stanza"
)

func f21pair(t *testing.T) (cs *xmpptest.ClientServer, ch, sh *ibb.Handler, ln *ibb.Listener) {
	sh, ch = &ibb.Handler{}, &ibb.Handler{}
	cs = xmpptest.NewClientServer(
		xmpptest.ServerHandler(mux.New(stanza.NSClient, ibb.Handle(sh))),
		xmpptest.ClientHandler(mux.New(stanza.NSClient, ibb.Handle(ch))),
	)
	ln = sh.Listen(cs.Server)
	return
}

// F21: the handler reads h.streams without its mutex (data packets, close)
// while Open/addStream writes it from another goroutine: run with -race.
// The serve goroutine's side is driven directly through HandleIQ.
func TestF21StreamsMapRace(t *testing.T) {
	cs, ch, _, ln := f21pair(t)
	go func() {
		for {
			if _, err := ln.Accept(); err != nil {
				return
			}
		}
	}()
	done := make(chan struct{})
	stop := make(chan struct{})
	go func() {
		defer close(done)
		for {
			select {
			case <-stop:
				return
			default:
			}
			payload := xml.StartElement{Name: xml.Name{Space: ibb.NS, Local: "data"}, Attr: []xml.Attr{
				{Name: xml.Name{Local: "sid"}, Value: "unknown"}, {Name: xml.Name{Local: "seq"}, Value: "0"},
			}}
			r := xmlstream.MultiReader(xmlstream.Token(xml.CharData("AAAA")), xmlstream.Token(payload.End()))
			ch.HandleIQ(stanza.IQ{Type: stanza.SetIQ, ID: "1"}, struct {
				xml.TokenReader
				xmlstream.Encoder
			}{TokenReader: r, Encoder: discardEncoder{}}, &payload)
		}
	}()
	for i := 0; i < 10; i++ {
		ctx, cancel := context.WithTimeout(context.Background(), 2*time.Second)
		_, err := ch.Open(ctx, cs.Client, cs.Server.LocalAddr())
		cancel()
		if err != nil {
			t.Fatal(err)
		}
	}
	close(stop)
	<-done
}

// F19: lost wake-up. Read checked that the buffer was empty, released the lock
// and only then waited on the unbuffered readReady channel; a packet handled in
// between was stored but its non-blocking notification found no waiter, so Read
// slept although data was buffered (until the next packet, or for ever after
// the last one). Each iteration sends one complete base64 group (3 bytes; Flush
// does not emit a partial group) while a Read is being started; on the
// unrepaired code the reader hangs after a few thousand iterations.
// (An earlier version of this test wrote one byte per packet and blamed the
// missing 400th byte on the wake-up; that byte was simply still in the base64
// encoder. The schedule above is the real demonstration.)
func TestF19LostWakeup(t *testing.T) {
	cs, ch, _, ln := f21pair(t)
	accepted := make(chan *ibb.Conn, 1)
	go func() {
		c, err := ln.Accept()
		if err == nil {
			accepted <- c.(*ibb.Conn)
		}
	}()
	ctx, cancel := context.WithTimeout(context.Background(), 5*time.Second)
	defer cancel()
	w, err := ch.Open(ctx, cs.Client, cs.Server.LocalAddr())
	if err != nil {
		t.Fatal(err)
	}
	r := <-accepted
	buf := make([]byte, 3)
	for i := 0; i < 30000; i++ {
		done := make(chan struct{})
		go func() {
			n := 0
			for n < 3 {
				k, err := r.Read(buf[n:])
				n += k
				if err != nil {
					break
				}
			}
			close(done)
		}()
		if _, err := w.Write([]byte("abc")); err != nil {
			t.Fatal(err)
		}
		if err := w.Flush(); err != nil {
			t.Fatal(err)
		}
		select {
		case <-done:
		case <-time.After(2 * time.Second):
			t.Fatalf("iteration %d: the packet was acknowledged but the reader is still asleep (lost wake-up)", i)
		}
	}
}

type discardEncoder struct{}

func (discardEncoder) EncodeToken(xml.Token) error                       { return nil }
func (discardEncoder) Encode(interface{}) error                          { return nil }
func (discardEncoder) EncodeElement(interface{}, xml.StartElement) error { return nil }

// F21b: a peer-initiated close flushes the write buffer on the serve goroutine
// (Conn.flush(t) does not take writeLock) while the application may be in
// Write under writeLock: run with -race.
func TestF21FlushWithoutWriteLock(t *testing.T) {
	ch := &ibb.Handler{}
	cs := xmpptest.NewClientServer(
		xmpptest.ClientHandler(mux.New(stanza.NSClient, ibb.Handle(ch))),
		xmpptest.ServerHandlerFunc(func(t xmlstream.TokenReadEncoder, start *xml.StartElement) error {
			iq, err := stanza.NewIQ(*start)
			if err != nil || (iq.Type != stanza.SetIQ && iq.Type != stanza.GetIQ) {
				return nil
			}
			_, err = xmlstream.Copy(t, iq.Result(nil))
			return err
		}),
	)
	ctx, cancel := context.WithTimeout(context.Background(), 2*time.Second)
	defer cancel()
	conn, err := ch.OpenIQ(ctx, stanza.IQ{To: cs.Server.LocalAddr()}, cs.Client, true, 1024, "sid-w")
	if err != nil {
		t.Fatal(err)
	}
	done := make(chan struct{})
	go func() {
		defer close(done)
		for i := 0; i < 2000; i++ {
			conn.Write([]byte("x")) // stays in the 1024 byte buffer: no stanza is sent
		}
	}()
	payload := xml.StartElement{Name: xml.Name{Space: ibb.NS, Local: "close"}, Attr: []xml.Attr{{Name: xml.Name{Local: "sid"}, Value: "sid-w"}}}
	r := xmlstream.MultiReader(xmlstream.Token(payload.End()))
	ch.HandleIQ(stanza.IQ{Type: stanza.SetIQ, ID: "1"}, struct {
		xml.TokenReader
		xmlstream.Encoder
	}{TokenReader: r, Encoder: discardEncoder{}}, &payload)
	<-done
}
