// Reproduction of finding F7 (property C05): place in the repository root
// (package xmpp_test) and run: go test -run TestF07 .
package xmpp_test

import (
	"bytes"
	"context"
	"io"
	"strings"
	"testing"

	"mellium.im/xmpp/internal/xmpptest"
	"mellium.im/xmpp/stanza"
)

// stanza.Error implements xmlstream.WriterTo: a successful Encode must put it
// on the wire before returning.
func TestF07EncodeWriterToFlushed(t *testing.T) {
	var out bytes.Buffer
	rw := struct {
		io.Reader
		io.Writer
	}{strings.NewReader(""), &out}
	s := xmpptest.NewClientSession(0, rw)
	err := s.Encode(context.Background(), stanza.Error{Type: stanza.Cancel, Condition: stanza.ServiceUnavailable})
	if err != nil {
		t.Fatal(err)
	}
	if !strings.Contains(out.String(), "service-unavailable") {
		t.Errorf("Encode returned nil but nothing reached the wire: %q", out.String())
	}
}
