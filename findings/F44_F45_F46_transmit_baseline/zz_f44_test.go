// Reproductions of findings F44 (open), F45 (fixed) and F46 (open), property C05; the first two
// subtests are F6 and F7 again. Written by an independent seeding agent against the unmodified
// code. Place in the repository root: go test -vet=off -count=1 -run TestBaselineC05 -v .
//   FailedSendPoisonsNextSend   = F44 (open)
//   NamespacedIDAttrCountsAsID  = F45 (fixed)
//   WrongStanzaNamespaceKept    = F46 (open: TestBind/5 pins a jabber:server iq written through a jabber:client encoder)
// Place in the repo root (package directory "."); run: go test -vet=off -count=1 -run TestBaselineC05 -v .
// Every subtest FAILS on the unmodified library.
package xmpp_test

import (
	"bytes"
	"context"
	"encoding/xml"
	"errors"
	"io"
	"strings"
	"testing"

	"mellium.im/xmlstream"
	"mellium.im/xmpp"
	"mellium.im/xmpp/internal/xmpptest"
	"mellium.im/xmpp/stanza"
)

type zzBaseRW struct {
	io.Reader
	io.Writer
}

func zzBaseSession() (*xmpp.Session, *bytes.Buffer) {
	b := &bytes.Buffer{}
	s := xmpptest.NewClientSession(0, zzBaseRW{Reader: strings.NewReader(""), Writer: b})
	return s, b
}

type zzBaseWriterTo struct{}

func (zzBaseWriterTo) WriteXML(w xmlstream.TokenWriter) (int, error) {
	return xmlstream.Copy(w, stanza.Message{Type: stanza.ChatMessage}.Wrap(nil))
}

type zzBaseFailingReader struct{ n int }

func (e *zzBaseFailingReader) Token() (xml.Token, error) {
	e.n++
	switch e.n {
	case 1:
		return xml.StartElement{Name: xml.Name{Local: "message"}}, nil
	case 2:
		return xml.StartElement{Name: xml.Name{Local: "body"}}, nil
	}
	return nil, errors.New("payload reader failed")
}

func TestBaselineC05(t *testing.T) {
	// 1. Session.EncodeElement ignores the supplied start element completely
	// (internal/marshal.EncodeXMLElement never uses its start argument).
	t.Run("EncodeElementIgnoresStart", func(t *testing.T) {
		s, b := zzBaseSession()
		err := s.EncodeElement(context.Background(), struct {
			XMLName xml.Name `xml:"urn:example foo"`
			A       string   `xml:"a"`
		}{A: "1"}, xml.StartElement{
			Name: xml.Name{Local: "message"},
			Attr: []xml.Attr{{Name: xml.Name{Local: "to"}, Value: "a@example.org"}},
		})
		if err != nil {
			t.Fatal(err)
		}
		if !strings.HasPrefix(b.String(), "<message") {
			t.Errorf("start element was not used as outermost tag: %s", b.String())
		}
	})

	// 2. Session.Encode / EncodeElement of a value implementing
	// xmlstream.WriterTo return success without flushing: nothing is on the wire
	// when the call returns (it only appears when some later call flushes).
	t.Run("EncodeWriterToNotFlushed", func(t *testing.T) {
		s, b := zzBaseSession()
		err := s.Encode(context.Background(), zzBaseWriterTo{})
		if err != nil {
			t.Fatal(err)
		}
		if !strings.Contains(b.String(), "</message>") {
			t.Errorf("element was not written to the connection by a successful Encode: %q", b.String())
		}
	})

	// 3. A transmit call that fails half way (payload token reader error) leaves
	// its partial element in the encoder buffer and the stanzaEncoder depth
	// stuck at >0. The next, successful, Send then emits the stale bytes in
	// front of its own element, which is nested in them and gets no id/xmlns.
	t.Run("FailedSendPoisonsNextSend", func(t *testing.T) {
		s, b := zzBaseSession()
		if err := s.Send(context.Background(), &zzBaseFailingReader{}); err == nil {
			t.Fatal("expected first send to fail")
		}
		b.Reset()
		err := s.Send(context.Background(), stanza.Message{Type: stanza.ChatMessage}.Wrap(nil))
		if err != nil {
			t.Fatal(err)
		}
		out := b.String()
		if !strings.HasPrefix(out, "<message xmlns=\"jabber:client\" type=\"chat\"") || strings.Contains(out, "<body>") || !strings.Contains(out, " id=") {
			t.Errorf("successful Send did not put exactly its own element on the wire: %s", out)
		}
	})

	// 4. Any attribute whose local name is "id" (e.g. xml:id or foo:id) is taken
	// for the stanza id by stanzaEncoder, so the stanza goes out without an id.
	t.Run("NamespacedIDAttrCountsAsID", func(t *testing.T) {
		s, b := zzBaseSession()
		err := s.Send(context.Background(), xmlstream.Wrap(nil, xml.StartElement{
			Name: xml.Name{Local: "message"},
			Attr: []xml.Attr{{Name: xml.Name{Space: "http://www.w3.org/XML/1998/namespace", Local: "id"}, Value: "a"}},
		}))
		if err != nil {
			t.Fatal(err)
		}
		d := xml.NewDecoder(strings.NewReader(b.String()))
		tok, err := d.Token()
		if err != nil {
			t.Fatal(err)
		}
		var found bool
		for _, a := range tok.(xml.StartElement).Attr {
			if a.Name.Local == "id" && a.Name.Space == "" && a.Value != "" {
				found = true
			}
		}
		if !found {
			t.Errorf("stanza sent without an id attribute: %s", b.String())
		}
	})

	// 5. A stanza explicitly named in the other stanza namespace keeps it: on a
	// jabber:client stream a {jabber:server}message is sent with
	// xmlns="jabber:server" instead of the stream's content namespace.
	t.Run("WrongStanzaNamespaceKept", func(t *testing.T) {
		s, b := zzBaseSession()
		err := s.Send(context.Background(), xmlstream.Wrap(nil, xml.StartElement{
			Name: xml.Name{Space: stanza.NSServer, Local: "message"},
		}))
		if err != nil {
			t.Fatal(err)
		}
		if strings.Contains(b.String(), stanza.NSServer) {
			t.Errorf("stanza does not carry the stream's content namespace: %s", b.String())
		}
	})
}
