// Reproduction of finding F38 (property C19, open). Place in styling/ (package
// styling_test): go test -run TestF38 ./styling
package styling_test

import (
	"encoding/xml"
	"testing"

	"mellium.im/xmpp/styling"
)

// "When unmarshaled or marshaled its value indicates whether the unstyled hint
// was or will be present": a false value is encoded as a present hint.
func TestF38UnstyledFalseRoundTrip(t *testing.T) {
	type msg struct {
		XMLName  xml.Name `xml:"message"`
		Unstyled styling.Unstyled
	}
	out, err := xml.Marshal(msg{})
	if err != nil {
		t.Fatal(err)
	}
	var back msg
	if err = xml.Unmarshal(out, &back); err != nil {
		t.Fatal(err)
	}
	if back.Unstyled.Value {
		t.Errorf("Unstyled{Value:false} came back true: %s", out)
	}
}
