// Reproductions of findings F51 (Ready reported together with a stream restart) and F52
// (prerequisites not re-checked within one features list), property C01, plus a contrived third
// one (tee installed mid-stream; not pursued). Written by an independent seeding agent against
// the unmodified code; F51 and F52 are repaired. Place in the module root:
// go test -vet=off -count=1 -run TestBaselineC01 -v .
// Place in the repo root (package directory "."); run: go test -vet=off -count=1 -run 'TestBaselineC01' -v .
// These tests FAIL on the unmodified library (see finding.md).

package xmpp_test

import (
	"bytes"
	"context"
	"encoding/xml"
	"io"
	"strings"
	"testing"

	"mellium.im/xmlstream"
	"mellium.im/xmpp"
	"mellium.im/xmpp/jid"
)

type blFeat struct {
	ns         string
	req        bool
	nec, proh  xmpp.SessionState
	mask       xmpp.SessionState
	restart    bool
	ran        *[]string
	stateAtRun *[]xmpp.SessionState
}

func (f blFeat) feature() xmpp.StreamFeature {
	return xmpp.StreamFeature{
		Name:       xml.Name{Space: f.ns, Local: "f"},
		Necessary:  f.nec,
		Prohibited: f.proh,
		List: func(ctx context.Context, e xmlstream.TokenWriter, start xml.StartElement) (bool, error) {
			if err := e.EncodeToken(start); err != nil {
				return f.req, err
			}
			return f.req, e.EncodeToken(start.End())
		},
		Parse: func(ctx context.Context, d *xml.Decoder, start *xml.StartElement) (bool, interface{}, error) {
			return f.req, nil, d.Skip()
		},
		Negotiate: func(ctx context.Context, s *xmpp.Session, data interface{}) (xmpp.SessionState, io.ReadWriter, error) {
			*f.ran = append(*f.ran, f.ns)
			if f.stateAtRun != nil {
				*f.stateAtRun = append(*f.stateAtRun, s.State())
			}
			if s.State()&xmpp.Received != 0 {
				r := s.TokenReader()
				defer r.Close()
				if _, err := r.Token(); err != nil {
					return 0, nil, err
				}
				if err := xmlstream.Skip(r); err != nil {
					return 0, nil, err
				}
			}
			var rw io.ReadWriter
			if f.restart {
				rw = s.Conn()
			}
			return f.mask, rw, nil
		},
	}
}

const blHdr = `<stream:stream id='1' version='1.0' xmlns:stream='http://etherx.jabber.org/streams' xmlns='jabber:client'>`

func blNegotiator(fs ...xmpp.StreamFeature) xmpp.Negotiator {
	return xmpp.NewNegotiator(func(*xmpp.Session, *xmpp.StreamConfig) xmpp.StreamConfig {
		return xmpp.StreamConfig{Features: fs}
	})
}

type blRW struct {
	io.Reader
	io.Writer
}

// Finding 1: a VOLUNTARY feature that requires a stream restart, advertised in
// a list without any mandatory feature (eg. <starttls/> without <required/>):
// negotiateFeatures returns the new ReadWriter together with the Ready bit, so
// negotiateSession swaps the transport and immediately reports the session
// established. The restart never happens: no fresh stream header is sent.
func TestBaselineC01VoluntaryRestartSkipsStreamHeader(t *testing.T) {
	var ran []string
	v := blFeat{ns: "urn:example:v", restart: true, ran: &ran}.feature()
	in := io.MultiReader(
		strings.NewReader(blHdr+`<stream:features><f xmlns='urn:example:v'/></stream:features>`),
		strings.NewReader(blHdr+`<stream:features/>`),
	)
	var out bytes.Buffer
	s, err := xmpp.NewSession(context.Background(), jid.JID{}, jid.JID{}, blRW{in, &out}, 0, blNegotiator(v))
	if err != nil {
		t.Fatalf("unexpected error: %v", err)
	}
	t.Logf("state=%v ran=%v out=%q", s.State(), ran, out.String())
	if n := strings.Count(out.String(), "<stream:stream"); n != 2 {
		t.Errorf("feature asked for a restart but the session was reported established after %d stream header(s); want a fresh header (2)", n)
	}
}

// Finding 2 (initiator): prerequisites are evaluated only when the features
// list is read. A voluntary, non-restarting feature negotiated from that list
// may set a bit that is prohibited for another feature of the same list; the
// loop nevertheless goes on to negotiate that other feature.
func TestBaselineC01StalePrerequisitesInitiator(t *testing.T) {
	// Repeat to cover both map iteration orders.
	for i := 0; i < 64; i++ {
		var ran []string
		var st []xmpp.SessionState
		a := blFeat{ns: "urn:example:a", mask: xmpp.Authn, ran: &ran}.feature()
		b := blFeat{ns: "urn:example:b", proh: xmpp.Authn, ran: &ran, stateAtRun: &st}.feature()
		in := strings.NewReader(blHdr + `<stream:features><f xmlns='urn:example:a'/><f xmlns='urn:example:b'/></stream:features>`)
		_, err := xmpp.NewSession(context.Background(), jid.JID{}, jid.JID{}, blRW{in, io.Discard}, 0, blNegotiator(a, b))
		if err != nil {
			t.Fatalf("unexpected error: %v", err)
		}
		for _, x := range st {
			if x&xmpp.Authn != 0 {
				t.Fatalf("iteration %d: feature b (Prohibited: Authn) was negotiated while Authn was set; order=%v", i, ran)
			}
		}
	}
}

// Finding 2 (receiver): same staleness on the receiving side: the selection of
// b is checked against the advertisement only, not against the current state.
func TestBaselineC01StalePrerequisitesReceiver(t *testing.T) {
	var ran []string
	var st []xmpp.SessionState
	a := blFeat{ns: "urn:example:a", mask: xmpp.Authn, ran: &ran}.feature()
	b := blFeat{ns: "urn:example:b", proh: xmpp.Authn, ran: &ran, stateAtRun: &st}.feature()
	in := strings.NewReader(blHdr + `<f xmlns='urn:example:a'/><f xmlns='urn:example:b'/>`)
	_, err := xmpp.ReceiveSession(context.Background(), blRW{in, io.Discard}, 0, blNegotiator(a, b))
	t.Logf("err=%v ran=%v", err, ran)
	for _, x := range st {
		if x&xmpp.Authn != 0 {
			t.Errorf("feature b (Prohibited: Authn) was run for the peer while Authn was set; ran=%v", ran)
		}
	}
}

// Finding 3: when the StreamConfig starts to ask for a tee (TeeIn/TeeOut) in
// the middle of a stream, the negotiator returns the tee conn as "new
// ReadWriter"; negotiateSession then clears the negotiated set although no
// stream restart takes place (no new header), so a feature that the peer
// re-advertises on the SAME stream is negotiated a second time.
func TestBaselineC01TeeMidStreamForgetsNegotiated(t *testing.T) {
	var ran []string
	v := blFeat{ns: "urn:example:v", ran: &ran}.feature()
	m := blFeat{ns: "urn:example:m", req: true, ran: &ran}.feature()
	in := io.MultiReader(
		strings.NewReader(blHdr+`<stream:features><f xmlns='urn:example:v'/><f xmlns='urn:example:m'/></stream:features>`),
		// Same stream, second advertisement: v repeated, nothing mandatory.
		strings.NewReader(`<stream:features xmlns:stream='http://etherx.jabber.org/streams'><f xmlns='urn:example:v'/></stream:features>`),
	)
	var out, tee bytes.Buffer
	s, err := xmpp.NewSession(context.Background(), jid.JID{}, jid.JID{}, blRW{in, &out}, 0,
		xmpp.NewNegotiator(func(s *xmpp.Session, _ *xmpp.StreamConfig) xmpp.StreamConfig {
			cfg := xmpp.StreamConfig{Features: []xmpp.StreamFeature{v, m}}
			if s != nil {
				// Only known once we have seen the stream.
				cfg.TeeIn = &tee
			}
			return cfg
		}))
	if err != nil {
		t.Fatalf("unexpected error: %v", err)
	}
	headers := strings.Count(out.String(), "<stream:stream")
	t.Logf("state=%v ran=%v headers=%d", s.State(), ran, headers)
	n := 0
	for _, ns := range ran {
		if ns == "urn:example:v" {
			n++
		}
	}
	if headers == 1 && n > 1 {
		t.Errorf("feature v was negotiated %d times on a single stream: %v", n, ran)
	}
}
