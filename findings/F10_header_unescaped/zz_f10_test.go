// Reproduction of finding F10 (property C12). Place in internal/stream/
// (package stream_test): go test -run TestF10 ./internal/stream
package stream_test

import (
	"bytes"
	"encoding/xml"
	"io"
	"strings"
	"testing"

	intstream "mellium.im/xmpp/internal/stream"
	"mellium.im/xmpp/jid"
	"mellium.im/xmpp/stanza"
	"mellium.im/xmpp/stream"
)

// A valid JID whose resourcepart contains ' < and &: the header must stay
// well-formed and a parser must recover the same address.
func TestF10HeaderEscapesAddresses(t *testing.T) {
	from := jid.MustParse("me@example.net/it's<&")
	var b bytes.Buffer
	rw := struct {
		io.Reader
		io.Writer
	}{strings.NewReader(""), &b}
	out := &stream.Info{XMLNS: stanza.NSClient}
	if err := intstream.Send(rw, out, false, stream.DefaultVersion, "en", "example.net", from.String(), "abc"); err != nil {
		t.Fatal(err)
	}
	d := xml.NewDecoder(&b)
	for {
		tok, err := d.Token()
		if err != nil {
			t.Fatalf("stream header is not well-formed XML: %v\n%s", err, b.String())
		}
		if se, ok := tok.(xml.StartElement); ok {
			for _, a := range se.Attr {
				if a.Name.Local == "from" && a.Value != from.String() {
					t.Errorf("from attribute: got %q want %q", a.Value, from.String())
				}
			}
			return
		}
	}
}
