// Reproduction of finding F2 (property C02): place in the repository root
// (package xmpp_test) and run: go test -run TestF02 .
package xmpp_test

import (
	"context"
	"crypto/tls"
	"io"
	"net"
	"testing"
	"time"

	"mellium.im/xmpp"
	"mellium.im/xmpp/jid"
)

// f02server accepts STARTTLS and reports the SNI name of the ClientHello.
func f02sni(t *testing.T, feature xmpp.StreamFeature, addr string) string {
	cc, sc := net.Pipe()
	defer cc.Close()
	sni := make(chan string, 1)
	go func() {
		defer sc.Close()
		buf := make([]byte, 4096)
		sc.SetDeadline(time.Now().Add(3 * time.Second))
		sc.Read(buf)
		io.WriteString(sc, `<?xml version='1.0'?><stream:stream xmlns='jabber:client' xmlns:stream='http://etherx.jabber.org/streams' id='x' version='1.0'><stream:features><starttls xmlns='urn:ietf:params:xml:ns:xmpp-tls'><required/></starttls></stream:features>`)
		sc.Read(buf) // <starttls/>
		io.WriteString(sc, `<proceed xmlns='urn:ietf:params:xml:ns:xmpp-tls'/>`)
		srv := tls.Server(sc, &tls.Config{GetConfigForClient: func(h *tls.ClientHelloInfo) (*tls.Config, error) {
			sni <- h.ServerName
			return nil, io.EOF
		}})
		srv.Handshake()
	}()
	ctx, cancel := context.WithTimeout(context.Background(), 3*time.Second)
	defer cancel()
	j := jid.MustParse(addr)
	xmpp.NewSession(ctx, j.Domain(), j, cc, 0, xmpp.NewNegotiator(func(*xmpp.Session, *xmpp.StreamConfig) xmpp.StreamConfig {
		return xmpp.StreamConfig{Features: []xmpp.StreamFeature{feature}}
	}))
	select {
	case s := <-sni:
		return s
	case <-time.After(4 * time.Second):
		return "(none)"
	}
}

func TestF02SharedTLSConfig(t *testing.T) {
	feature := xmpp.StartTLS(nil) // one feature value reused for two sessions
	if got := f02sni(t, feature, "alice@first.example"); got != "first.example" {
		t.Errorf("first session: SNI %q, want first.example", got)
	}
	if got := f02sni(t, feature, "bob@second.example"); got != "second.example" {
		t.Errorf("second session: handshake names %q, want second.example (the session's own domain)", got)
	}
}
