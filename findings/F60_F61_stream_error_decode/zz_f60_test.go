// Place in: stream/   Run: go test -vet=off -count=1 -run TestBaselineStreamError ./stream
// These tests FAIL on the unmodified library.
package stream_test

import (
	"encoding/xml"
	"reflect"
	"testing"

	"mellium.im/xmlstream"
	"mellium.im/xmpp/stream"
)

// A stream error that carries an application specific condition
// (Error.ApplicationError) is encoded by the library as
// <error><cond/><app-payload/><text>..</text></error>, but the library cannot
// decode its own output: UnmarshalXML does not skip elements outside the
// stream error namespace, so the END element of the application payload is
// mistaken for the end of <stream:error/> and decoding stops early.
func TestBaselineStreamErrorApplicationPayloadRoundTrip(t *testing.T) {
	orig := stream.Error{Err: "undefined-condition", Text: []struct {
		Lang  string
		Value string
	}{{Lang: "en", Value: "too many <stanzas> & more"}}}
	withApp := orig.ApplicationError(xmlstream.Wrap(nil, xml.StartElement{
		Name: xml.Name{Space: "urn:example:app", Local: "too-many-stanzas"},
	}))
	b, err := xml.Marshal(withApp)
	if err != nil {
		t.Fatalf("marshal: %v", err)
	}
	var got stream.Error
	if err := xml.Unmarshal(b, &got); err != nil {
		t.Errorf("library cannot decode its own output %s: %v", b, err)
	}
	if got.Err != orig.Err || !reflect.DeepEqual(got.Text, orig.Text) {
		t.Errorf("stream error did not round trip through %s:\nwant err=%q text=%+v\n got err=%q text=%+v", b, orig.Err, orig.Text, got.Err, got.Text)
	}
}

// The character data of the condition element (Content) is written for every
// condition but only read back for see-other-host.
func TestBaselineStreamErrorContentRoundTrip(t *testing.T) {
	orig := stream.Error{Err: "host-gone", Content: "old.example.net"}
	b, err := xml.Marshal(orig)
	if err != nil {
		t.Fatalf("marshal: %v", err)
	}
	var got stream.Error
	if err := xml.Unmarshal(b, &got); err != nil {
		t.Fatalf("unmarshal %s: %v", b, err)
	}
	if got.Err != orig.Err || got.Content != orig.Content {
		t.Errorf("stream error did not round trip through %s:\nwant err=%q content=%q\n got err=%q content=%q", b, orig.Err, orig.Content, got.Err, got.Content)
	}
}
