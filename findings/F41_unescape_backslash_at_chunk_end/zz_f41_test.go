// Reproduction of finding F41 (property C16). Place in jid/ (package
// jid_test): go test -run TestF41 ./jid
package jid_test

import (
	"strings"
	"testing"

	"golang.org/x/text/transform"
	"mellium.im/xmpp/jid"
)

// A backslash that does not start an escape, immediately followed by one that
// does, gives a different result when the pair falls on the end of a chunk
// (x/text's String uses 128-byte chunks): the second backslash was copied as a
// literal without waiting for the bytes after it.
func TestF41UnescapeChunkIndependent(t *testing.T) {
	for _, tail := range []string{`\\20`, `\\\20`} {
		short := jid.Unescape.String(tail)
		for n := 120; n < 135; n++ {
			in := strings.Repeat("a", n) + tail
			want := strings.Repeat("a", n) + short
			if got := jid.Unescape.String(in); got != want {
				t.Errorf("tail %q after %d bytes: String got …%q want …%q", tail, n, got[n-1:], want[n-1:])
			}
		}
	}
	// the same through the transformer interface, two bytes at a time
	in := `ab\\20`
	var out []byte
	dst := make([]byte, 16)
	src := []byte(in)
	for len(src) > 0 {
		k := 4
		if k > len(src) {
			k = len(src)
		}
		nDst, nSrc, err := jid.Unescape.Transform(dst, src[:k], k == len(src))
		out = append(out, dst[:nDst]...)
		src = src[nSrc:]
		if err != nil && err != transform.ErrShortSrc {
			t.Fatal(err)
		}
		if nSrc == 0 && err == transform.ErrShortSrc && k == len(src) {
			t.Fatal("no progress")
		}
		if nSrc == 0 {
			// give the transformer more input next time
			nDst, nSrc, err = jid.Unescape.Transform(dst, src, true)
			out = append(out, dst[:nDst]...)
			src = src[nSrc:]
			if err != nil {
				t.Fatal(err)
			}
		}
	}
	if want := jid.Unescape.String(in); string(out) != want {
		t.Errorf("chunked Transform of %q gave %q, whole-input gave %q", in, out, want)
	}
}
