// Reproduction of finding F37 (property C19). Place in history/ (package
// history_test): go test -run TestF37 ./history
package history_test

import (
	"encoding/xml"
	"testing"

	"mellium.im/xmpp/history"
)

// PageID is written as the content of <after/> (or <before/>) but the decoder
// never read it back.
func TestF37QueryPageIDRoundTrip(t *testing.T) {
	for _, last := range []bool{false, true} {
		in := history.Query{ID: "q", PageID: "page-7", Limit: 10, Last: last}
		out, err := xml.Marshal(&in)
		if err != nil {
			t.Fatal(err)
		}
		var back history.Query
		if err = xml.Unmarshal(out, &back); err != nil {
			t.Fatal(err)
		}
		if back.PageID != in.PageID || back.Last != last {
			t.Errorf("last=%t: page id lost: %s -> PageID=%q Last=%t", last, out, back.PageID, back.Last)
		}
	}
}
