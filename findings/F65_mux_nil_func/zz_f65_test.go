// Place in: mux/   Run: go test -vet=off -count=1 -run 'TestBaseline' ./mux/
// These tests FAIL on the unmodified library.

package mux_test

import (
	"encoding/xml"
	"strings"
	"testing"

	"mellium.im/xmlstream"
	"mellium.im/xmpp/mux"
	"mellium.im/xmpp/stanza"
)

// Registering a pattern with a nil handler must be refused (the option panics
// when applied).  The *Func variants convert the nil func to a non-nil
// interface value before the nil check, so the registration is accepted and
// the mux later panics with a nil func call when a matching element arrives.
func TestBaselineNilFuncHandlerRefused(t *testing.T) {
	for name, opt := range map[string]mux.Option{
		"IQFunc":       mux.IQFunc(stanza.GetIQ, xml.Name{}, nil),
		"MessageFunc":  mux.MessageFunc(stanza.ChatMessage, xml.Name{}, nil),
		"PresenceFunc": mux.PresenceFunc(stanza.ProbePresence, xml.Name{}, nil),
		"HandleFunc":   mux.HandleFunc(xml.Name{Local: "test"}, nil),
	} {
		t.Run(name, func(t *testing.T) {
			defer func() {
				if r := recover(); r == nil {
					t.Errorf("registration of a nil handler func was not refused")
				}
			}()
			mux.New(stanza.NSClient, opt)
		})
	}
}

// A stanza must be routed considering only the patterns of its own stanza kind
// and type.  A namespace-only (or fully wildcard) top level pattern registered
// with Handle is consulted before the stanza routers, so it swallows every
// message, presence and IQ in that namespace even though a far more specific
// message pattern is registered (and even though Handle refuses to register
// stanza names precisely so that this cannot happen).
func TestBaselineWildcardHandleHijacksStanzas(t *testing.T) {
	var got []string
	m := mux.New(stanza.NSClient,
		mux.HandleFunc(xml.Name{Space: stanza.NSClient}, func(xmlstream.TokenReadEncoder, *xml.StartElement) error {
			got = append(got, "toplevel-namespace-wildcard")
			return nil
		}),
		mux.MessageFunc(stanza.ChatMessage, xml.Name{Space: stanza.NSClient, Local: "body"}, func(stanza.Message, xmlstream.TokenReadEncoder) error {
			got = append(got, "chat-body")
			return nil
		}),
	)
	d := xml.NewDecoder(strings.NewReader(`<message xmlns="jabber:client" type="chat"><body>hi</body></message>`))
	tok, _ := d.Token()
	start := tok.(xml.StartElement)
	if err := m.HandleXMPP(nopEncoder{TokenReader: d}, &start); err != nil {
		t.Fatalf("unexpected error: %v", err)
	}
	if len(got) != 1 || got[0] != "chat-body" {
		t.Errorf("wrong handler invoked: want=[chat-body], got=%v", got)
	}
}
