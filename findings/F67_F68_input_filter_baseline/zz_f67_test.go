// Reproductions of findings F67 (open: errors of the stream-level filter are not final) and F68
// (fixed: from normalisation ignored the attribute's namespace), property C08; the other two tests
// are F60 and F53 again. Written by an independent seeding agent against the unmodified code.
// Place in the module root: go test -vet=off -count=1 -run TestBaselineC08 -v .
// Place in the repository root (package xmpp_test); run: go test -vet=off -count=1 -run 'TestBaselineC08' -v .
// These tests FAIL on the unmodified library.
package xmpp_test

import (
	"bytes"
	"encoding/xml"
	"errors"
	"io"
	"strings"
	"testing"

	"mellium.im/xmlstream"
	"mellium.im/xmpp"
	"mellium.im/xmpp/internal/xmpptest"
	"mellium.im/xmpp/stream"
)

func baselineServe(in string, h xmpp.Handler) error {
	s := xmpptest.NewClientSession(0, struct {
		io.Reader
		io.Writer
	}{Reader: strings.NewReader(in), Writer: &bytes.Buffer{}})
	return s.Serve(h)
}

// 1. A received stream error that carries an application specific condition
// (RFC 6120 §4.9.1.1 example) is not returned as a stream.Error.
func TestBaselineC08StreamErrorWithAppCondition(t *testing.T) {
	in := `<stream:error xmlns:stream="` + stream.NS + `">` +
		`<not-well-formed xmlns='urn:ietf:params:xml:ns:xmpp-streams'/>` +
		`<escape-your-data xmlns='http://example.org/ns'/>` +
		`</stream:error>`
	err := baselineServe(in, nil)
	var se stream.Error
	if !errors.As(err, &se) || !errors.Is(err, stream.NotWellFormed) {
		t.Errorf("received stream error was not returned as such, got %T: %v", err, err)
	}
}

// 2. The errors produced by the stream level filter are not sticky: if they are
// hit while the *handler* is reading (nested comment, nested stream:error) and
// the handler does not propagate the read error, the session carries on and
// later elements are still dispatched; Serve finally returns nil.
func TestBaselineC08NestedStreamLevelConstructSwallowed(t *testing.T) {
	for name, nested := range map[string]string{
		"comment":      `<!-- c -->`,
		"procinst":     `<?foo bar?>`,
		"stream-error": `<stream:error xmlns:stream="` + stream.NS + `"><not-well-formed xmlns='urn:ietf:params:xml:ns:xmpp-streams'/></stream:error>`,
	} {
		t.Run(name, func(t *testing.T) {
			var seen []string
			err := baselineServe(`<a><b/>`+nested+`<d/></a><e/>`, xmpp.HandlerFunc(func(rw xmlstream.TokenReadEncoder, start *xml.StartElement) error {
				seen = append(seen, start.Name.Local)
				// A handler that stops at the first read error (of any kind) without
				// reporting it, e.g. `_ = xml.NewTokenDecoder(rw).Decode(&v)`.
				for {
					if _, err := rw.Token(); err != nil {
						return nil
					}
				}
			}))
			if err == nil {
				t.Errorf("stream-level construct inside <a> did not end the session with an error (handler invoked for %v)", seen)
			}
		})
	}
}

// 3. The from normalisation looks at the first attribute whose *local* name is
// "from", whatever its namespace, and then stops.
func TestBaselineC08FromAttrNamespaceIgnored(t *testing.T) {
	var got []xml.Attr
	err := baselineServe(`<message xmlns:x="urn:example:x" x:from="somebody" from="test@example.net"/>`, xmpp.HandlerFunc(func(rw xmlstream.TokenReadEncoder, start *xml.StartElement) error {
		got = start.Attr
		return nil
	}))
	if err != nil {
		t.Fatal(err)
	}
	for _, a := range got {
		if a.Name.Local == "from" && a.Name.Space == "" && a.Value != "" {
			t.Errorf("own bare address in from was not presented as empty: %+v", got)
		}
	}
}

// 4. A handler that returns io.EOF (e.g. because it tried to read beyond the
// end of its element and returned that error) makes Serve stop as if the peer
// had closed the stream: nil error, remaining elements never dispatched.
func TestBaselineC08HandlerEOFEndsServeSilently(t *testing.T) {
	var seen []string
	err := baselineServe(`<a/><b/>`, xmpp.HandlerFunc(func(rw xmlstream.TokenReadEncoder, start *xml.StartElement) error {
		seen = append(seen, start.Name.Local)
		for {
			if _, err := rw.Token(); err != nil {
				return err // io.EOF at the end of the element
			}
		}
	}))
	if err == nil && len(seen) != 2 {
		t.Errorf("Serve returned nil but only dispatched %v of [a b]", seen)
	}
}
