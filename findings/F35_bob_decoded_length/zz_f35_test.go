// Reproduction of finding F35 (property C19). Place in bin/ (package
// bin_test): go test -run TestF35 ./bin
package bin_test

import (
	"bytes"
	"encoding/xml"
	"testing"

	"mellium.im/xmpp/bin"
)

// Data whose length is not a multiple of three is padded by base64; the
// decoder sized the result from DecodedLen and never trimmed it.
func TestF35DataRoundTrip(t *testing.T) {
	in := bin.Data{CID: "sha1+8f35fef110ffc5df08d579a50083ff9308fb6242@bob.xmpp.org", Type: "text/plain", Data: []byte("ab")}
	out, err := xml.Marshal(&in)
	if err != nil {
		t.Fatal(err)
	}
	var back bin.Data
	if err = xml.Unmarshal(out, &back); err != nil {
		t.Fatal(err)
	}
	if !bytes.Equal(back.Data, in.Data) {
		t.Errorf("round trip changed the data: %q -> %s -> %q", in.Data, out, back.Data)
	}
}
