// Reproductions of findings F47 (cancellation between two I/O operations lost), F48 (receiving-side
// bind reports Ready after the callback's stanza error) and F49 (initiating-side bind returns a nil
// *stanza.Error as error), properties C04/C12. Written by an independent seeding agent against the
// unmodified code; all three are repaired. Place in the module root:
// go test -vet=off -count=1 -run TestSeedC04Baseline .
// Place in the module root (package dir "."). Run: go test -vet=off -count=1 -run 'TestSeedC04Baseline' .
// These tests FAIL on the unmodified library.

package xmpp_test

import (
	"bytes"
	"context"
	"fmt"
	"io"
	"net"
	"regexp"
	"testing"
	"time"

	"mellium.im/xmpp"
	"mellium.im/xmpp/jid"
	"mellium.im/xmpp/stanza"
)

const seedBaselineHeader = `<?xml version="1.0"?><stream:stream xmlns='jabber:client' xmlns:stream='http://etherx.jabber.org/streams' version='1.0' id='abc' from='example.net' to='me@example.net'>`

// 1. The context is canceled at an instant at which the negotiator is not
// blocked in a Read or Write (here: while the user's StreamConfig callback
// runs, between receiving the stream header and reading the features list).
// The deadline watcher sets the connection deadline into the past and
// immediately clears it again, which only interrupts I/O that is in progress,
// and nothing polls ctx before the next blocking read of negotiateFeatures.
// On a transport that supports deadlines (net.Pipe) the call therefore outlives
// the cancellation for as long as the peer stalls.
func TestSeedC04BaselineCancelBetweenSteps(t *testing.T) {
	clientConn, serverConn := net.Pipe()
	defer clientConn.Close()
	defer serverConn.Close()

	go func() {
		/* #nosec */
		go io.Copy(io.Discard, serverConn)
		// Stream header, then the peer stalls.
		_, _ = io.WriteString(serverConn, seedBaselineHeader)
	}()

	ctx, cancel := context.WithCancel(context.Background())
	defer cancel()

	calls := 0
	done := make(chan error, 1)
	go func() {
		origin := jid.MustParse("me@example.net")
		_, err := xmpp.NewSession(ctx, origin.Domain(), origin, clientConn, 0,
			xmpp.NewNegotiator(func(*xmpp.Session, *xmpp.StreamConfig) xmpp.StreamConfig {
				calls++
				if calls == 2 {
					// The cancellation arrives while a (slow) configuration lookup is
					// running.
					cancel()
					time.Sleep(100 * time.Millisecond)
				}
				return xmpp.StreamConfig{}
			}))
		done <- err
	}()

	select {
	case err := <-done:
		if err == nil {
			t.Errorf("expected an error after cancellation")
		}
	case <-time.After(3 * time.Second):
		t.Errorf("session establishment is still running 3s after the context was canceled")
	}
}

var seedBaselineIQID = regexp.MustCompile(`<iq[^>]* id="([^"]*)"`)

// 2. Receiving side resource binding: when the server callback refuses the
// bind with a stanza.Error the error is written to the peer (in an IQ of type
// "result"), but the feature returns Ready with a nil error: the step failed
// and yet session establishment reports success.
func TestSeedC04BaselineServerBindErrorSwallowed(t *testing.T) {
	clientConn, serverConn := net.Pipe()
	defer clientConn.Close()
	defer serverConn.Close()

	go func() {
		/* #nosec */
		go io.Copy(io.Discard, clientConn)
		_, _ = io.WriteString(clientConn, `<?xml version="1.0"?><stream:stream xmlns='jabber:client' xmlns:stream='http://etherx.jabber.org/streams' version='1.0' to='example.net' from='me@example.net'>`)
		_, _ = io.WriteString(clientConn, `<iq type='set' id='b1'><bind xmlns='urn:ietf:params:xml:ns:xmpp-bind'><resource>taken</resource></bind></iq>`)
	}()

	type result struct {
		s   *xmpp.Session
		err error
	}
	done := make(chan result, 1)
	go func() {
		s, err := xmpp.ReceiveSession(context.Background(), serverConn, xmpp.Secure|xmpp.Authn,
			xmpp.NewNegotiator(func(*xmpp.Session, *xmpp.StreamConfig) xmpp.StreamConfig {
				return xmpp.StreamConfig{Features: []xmpp.StreamFeature{
					xmpp.BindCustom(func(jid.JID, string) (jid.JID, error) {
						return jid.JID{}, stanza.Error{Type: stanza.Cancel, Condition: stanza.Conflict}
					}),
				}}
			}))
		done <- result{s, err}
	}()

	select {
	case r := <-done:
		if r.err == nil {
			t.Errorf("the bind step failed (conflict) but session establishment returned a nil error")
		}
		if r.s != nil && r.s.State()&xmpp.Ready != 0 {
			t.Errorf("session is ready although no resource was bound")
		}
	case <-time.After(5 * time.Second):
		t.Fatal("session establishment did not return")
	}
}

// 3. Initiating side resource binding: an error reply without an <error/>
// child makes the feature return a nil *stanza.Error wrapped in a non-nil error
// interface. Establishment does fail, but the returned error panics as soon as
// it is inspected (Error() has a value receiver).
func TestSeedC04BaselineClientBindTypedNilError(t *testing.T) {
	clientConn, serverConn := net.Pipe()
	defer clientConn.Close()
	defer serverConn.Close()

	go func() {
		ids := make(chan string, 1)
		go func() {
			var seen []byte
			buf := make([]byte, 1024)
			sent := false
			for {
				n, err := serverConn.Read(buf)
				seen = append(seen, buf[:n]...)
				if !sent && bytes.Contains(seen, []byte("</iq>")) {
					if m := seedBaselineIQID.FindSubmatch(seen); m != nil {
						sent = true
						ids <- string(m[1])
					}
				}
				if err != nil {
					return
				}
			}
		}()
		_, _ = io.WriteString(serverConn, seedBaselineHeader+`<stream:features><bind xmlns='urn:ietf:params:xml:ns:xmpp-bind'/></stream:features>`)
		select {
		case id := <-ids:
			_, _ = io.WriteString(serverConn, `<iq type='error' id='`+id+`'/>`)
		case <-time.After(5 * time.Second):
		}
	}()

	done := make(chan error, 1)
	go func() {
		origin := jid.MustParse("me@example.net")
		_, err := xmpp.NewSession(context.Background(), origin.Domain(), origin, clientConn, xmpp.Secure|xmpp.Authn,
			xmpp.NewNegotiator(func(*xmpp.Session, *xmpp.StreamConfig) xmpp.StreamConfig {
				return xmpp.StreamConfig{Features: []xmpp.StreamFeature{xmpp.BindResource()}}
			}))
		done <- err
	}()

	select {
	case err := <-done:
		if err == nil {
			t.Fatal("expected an error")
		}
		func() {
			defer func() {
				if r := recover(); r != nil {
					t.Errorf("inspecting the error returned by session establishment panics: %v", r)
				}
			}()
			_ = fmt.Sprint(err.Error())
		}()
	case <-time.After(5 * time.Second):
		t.Fatal("session establishment did not return")
	}
}
