// Reproduction of findings F25 and F26 (property C20). Place in disco/
// (package disco_test): go test -run 'TestF25|TestF26' ./disco
package disco_test

import (
	"crypto/sha1"
	"encoding/xml"
	"strings"
	"testing"

	"mellium.im/xmpp/disco"
)

func f25info(t *testing.T, s string) disco.Info {
	var info disco.Info
	if err := xml.NewDecoder(strings.NewReader(s)).Decode(&info); err != nil {
		t.Fatal(err)
	}
	return info
}

// F25: an empty extended-information form in a peer's reply.
func TestF25EmptyForm(t *testing.T) {
	info := f25info(t, `<query xmlns='http://jabber.org/protocol/disco#info'><identity category='client' type='pc'/><x xmlns='jabber:x:data' type='result'/></query>`)
	defer func() {
		if p := recover(); p != nil {
			t.Errorf("Hash panicked on an info value with an empty form: %v", p)
		}
	}()
	info.Hash(sha1.New())
}

const f26a = `<x xmlns='jabber:x:data' type='result'><field var='FORM_TYPE' type='hidden'><value>urn:example:a</value></field><field var='k'><value>1</value></field></x>`
const f26b = `<x xmlns='jabber:x:data' type='result'><field var='FORM_TYPE' type='hidden'><value>urn:example:b</value></field><field var='k'><value>2</value></field></x>`

// F26: the hash must not depend on the order of the forms.
func TestF26FormOrder(t *testing.T) {
	pre := `<query xmlns='http://jabber.org/protocol/disco#info'><identity category='client' type='pc'/>`
	h1 := f25info(t, pre+f26a+f26b+`</query>`).Hash(sha1.New())
	h2 := f25info(t, pre+f26b+f26a+`</query>`).Hash(sha1.New())
	if h1 != h2 {
		t.Errorf("verification string depends on the order of the forms: %s vs %s", h1, h2)
	}
}
