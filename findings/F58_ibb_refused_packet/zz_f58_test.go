// Place in: ibb/   Run: go test -vet=off -count=1 -run TestBaseline ./ibb/
package ibb_test

import (
	"context"
	"encoding/base64"
	"encoding/xml"
	"errors"
	"io"
	"net"
	"strconv"
	"strings"
	"testing"
	"time"

	"mellium.im/xmlstream"
	"mellium.im/xmpp"
	"mellium.im/xmpp/ibb"
	"mellium.im/xmpp/internal/xmpptest"
	"mellium.im/xmpp/mux"
	"mellium.im/xmpp/stanza"
)

func blDataPacket(sid string, seq int, chardata string) xml.TokenReader {
	return xmlstream.Wrap(
		xmlstream.Token(xml.CharData(chardata)),
		xml.StartElement{
			Name: xml.Name{Space: ibb.NS, Local: "data"},
			Attr: []xml.Attr{
				{Name: xml.Name{Local: "seq"}, Value: strconv.Itoa(seq)},
				{Name: xml.Name{Local: "sid"}, Value: sid},
			},
		},
	)
}

func blInject(s *xmpp.Session, sid string, seq int, chardata string) error {
	ctx, cancel := context.WithTimeout(context.Background(), 5*time.Second)
	defer cancel()
	return s.UnmarshalIQElement(ctx, blDataPacket(sid, seq, chardata), stanza.IQ{
		To:   s.RemoteAddr(),
		Type: stanza.SetIQ,
	}, nil)
}

type blResult struct {
	b   []byte
	err error
}

func blSetup(t *testing.T, sid string) (*xmpptest.ClientServer, *ibb.Conn, *ibb.Conn) {
	clientIBB := &ibb.Handler{}
	serverIBB := &ibb.Handler{}
	s := xmpptest.NewClientServer(
		xmpptest.ClientHandler(mux.New(stanza.NSClient, ibb.Handle(clientIBB))),
		xmpptest.ServerHandler(mux.New(stanza.NSClient, ibb.Handle(serverIBB))),
	)
	accept := make(chan net.Conn, 1)
	ln := serverIBB.Listen(s.Server)
	go func() {
		c, err := ln.Accept()
		if err != nil {
			close(accept)
			return
		}
		accept <- c
	}()
	clientConn, err := clientIBB.OpenIQ(context.Background(), stanza.IQ{To: s.Server.LocalAddr()}, s.Client, true, 30, sid)
	if err != nil {
		t.Fatalf("error opening connection: %v", err)
	}
	serverConn, ok := <-accept
	if !ok {
		t.Fatal("accept failed")
	}
	return s, clientConn, serverConn.(*ibb.Conn)
}

// finish writes second, closes, and returns everything the reader saw.
func blFinish(t *testing.T, clientConn, serverConn *ibb.Conn, second string) string {
	if _, err := io.WriteString(clientConn, second); err != nil {
		t.Fatalf("write 2: %v", err)
	}
	if err := clientConn.Flush(); err != nil {
		t.Errorf("flush 2 (stream disturbed by the refused packet): %v", err)
	}
	if err := clientConn.Close(); err != nil {
		t.Errorf("close: %v", err)
	}
	read := make(chan blResult, 1)
	go func() {
		b, err := io.ReadAll(serverConn)
		read <- blResult{b, err}
	}()
	select {
	case r := <-read:
		if r.err != nil {
			t.Fatalf("read: %v", r.err)
		}
		return string(r.b)
	case <-time.After(5 * time.Second):
		t.Fatal("timeout waiting for EOF")
	}
	return ""
}

const blFirst, blSecond = "abcdefghi", "jklmnopqr"

// An injected packet with the right seq but undecodable base64 is refused with
// bad-request, yet (1) the part of it that decoded before the corruption is
// delivered to the reader and (2) it consumed the sequence number, so the real
// sender's next packet is refused with unexpected-request.
func TestBaselineUndecodableDisturbs(t *testing.T) {
	const sid = "bl1"
	s, clientConn, serverConn := blSetup(t, sid)
	if _, err := io.WriteString(clientConn, blFirst); err != nil {
		t.Fatal(err)
	}
	if err := clientConn.Flush(); err != nil {
		t.Fatal(err)
	}
	err := blInject(s.Client, sid, 1, base64.StdEncoding.EncodeToString([]byte("GARBAGE!!"))+"!!!!")
	if !errors.Is(err, stanza.Error{Type: stanza.Cancel, Condition: stanza.BadRequest}) {
		t.Fatalf("undecodable packet: want bad-request, got %v", err)
	}
	// The buffer is non-empty, so this Read does not block.
	buf := make([]byte, 256)
	n, _ := serverConn.Read(buf)
	if string(buf[:n]) != blFirst {
		t.Errorf("refused packet leaked into the stream: want %q buffered, got %q", blFirst, buf[:n])
	}
	got := string(buf[:n]) + blFinish(t, clientConn, serverConn, blSecond)
	if !strings.HasPrefix(got, blFirst) || !strings.HasSuffix(got, blSecond) {
		t.Errorf("wrong data delivered: want %q, got %q", blFirst+blSecond, got)
	}
}

// An injected packet with the right seq that exceeds the receive buffer is
// refused with resource-constraint, but it consumed the sequence number, so the
// real sender's next packet is refused with unexpected-request.
func TestBaselineOversizeDisturbs(t *testing.T) {
	const sid = "bl2"
	s, clientConn, serverConn := blSetup(t, sid)
	serverConn.SetReadBuffer(64)
	if _, err := io.WriteString(clientConn, blFirst); err != nil {
		t.Fatal(err)
	}
	if err := clientConn.Flush(); err != nil {
		t.Fatal(err)
	}
	err := blInject(s.Client, sid, 1, base64.StdEncoding.EncodeToString([]byte(strings.Repeat("Z", 300))))
	if !errors.Is(err, stanza.Error{Type: stanza.Wait, Condition: stanza.ResourceConstraint}) {
		t.Fatalf("oversize packet: want resource-constraint, got %v", err)
	}
	got := blFinish(t, clientConn, serverConn, blSecond)
	if got != blFirst+blSecond {
		t.Errorf("wrong data delivered: want %q, got %q", blFirst+blSecond, got)
	}
}

// A well-formed data packet with an empty payload and the right seq is
// acknowledged, but wakes a blocked Read which then returns io.EOF although the
// stream has not been closed: the reader sees a premature end-of-file and
// misses everything sent afterwards.
func TestBaselineEmptyPacketPrematureEOF(t *testing.T) {
	const sid = "bl3"
	s, clientConn, serverConn := blSetup(t, sid)
	read := make(chan blResult, 1)
	go func() {
		b, err := io.ReadAll(serverConn)
		read <- blResult{b, err}
	}()
	// Give the reader time to block in Read on the empty buffer.
	time.Sleep(200 * time.Millisecond)
	if err := blInject(s.Client, sid, 0, ""); err != nil {
		t.Fatalf("empty packet: %v", err)
	}
	select {
	case r := <-read:
		t.Fatalf("reader saw EOF before the stream was closed (got %q, err %v)", r.b, r.err)
	case <-time.After(500 * time.Millisecond):
	}
	_ = clientConn
}
