// Reproduction of finding F23 (property C18). Place in muc/ (package muc_test):
// go test -run TestF23 ./muc
package muc_test

import (
	"context"
	"encoding/xml"
	"testing"
	"time"

	"mellium.im/xmlstream"
	"mellium.im/xmpp/internal/xmpptest"
	"mellium.im/xmpp/jid"
	"mellium.im/xmpp/muc"
	"mellium.im/xmpp/mux"
	"mellium.im/xmpp/stanza"
)

// After a successful join, Joined must report true.
func TestF23JoinedAfterJoin(t *testing.T) {
	h := &muc.Client{}
	cs := xmpptest.NewClientServer(
		xmpptest.ClientHandler(mux.New(stanza.NSClient, muc.HandleClient(h))),
		xmpptest.ServerHandlerFunc(func(t xmlstream.TokenReadEncoder, start *xml.StartElement) error {
			p, err := stanza.NewPresence(*start)
			if err != nil {
				return err
			}
			p.To, p.From = p.From, p.To
			_, err = xmlstream.Copy(t, p.Wrap(xmlstream.Wrap(nil, xml.StartElement{Name: xml.Name{Space: muc.NSUser, Local: "x"}})))
			return err
		}),
	)
	defer cs.Close()
	ctx, cancel := context.WithTimeout(context.Background(), 2*time.Second)
	defer cancel()
	ch, err := h.Join(ctx, jid.MustParse("room@example.net/me"), cs.Client)
	if err != nil {
		t.Fatal(err)
	}
	if !ch.Joined() {
		t.Errorf("Joined() is false right after a successful Join")
	}
}
