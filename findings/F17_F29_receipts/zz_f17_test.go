// Reproduction of findings F17 and F29 (property C06). Place in receipts/
// (package receipts_test): go test -race -run TestF17 ./receipts
package receipts_test

import (
	"context"
	"encoding/xml"
	"strconv"
	"strings"
	"sync"
	"testing"
	"time"

	"mellium.im/xmlstream"
	"mellium.im/xmpp/internal/xmpptest"
	"mellium.im/xmpp/receipts"
	"mellium.im/xmpp/stanza"
)

// The receipt for a message arrives at the same moment the sender gives up
// waiting: on the original code the handler can pick up the waiter's channel,
// the sender closes it, and the handler then sends on the closed channel
// (panic in the serve goroutine). Stress test; the panic is recovered and
// reported.
func TestF17ReceiptRacesWithCancel(t *testing.T) {
	h := &receipts.Handler{}
	cs := xmpptest.NewClientServer()
	defer cs.Close()
	var wg sync.WaitGroup
	panicked := make(chan interface{}, 1)
	for i := 0; i < 3000; i++ {
		id := "id" + strconv.Itoa(i)
		ctx, cancel := context.WithCancel(context.Background())
		wg.Add(2)
		go func() {
			defer wg.Done()
			h.SendMessageElement(ctx, cs.Client, nil, stanza.Message{ID: id, Type: stanza.NormalMessage})
		}()
		go func() {
			defer wg.Done()
			defer func() {
				if p := recover(); p != nil {
					select {
					case panicked <- p:
					default:
					}
				}
			}()
			time.Sleep(time.Duration(i%7) * 10 * time.Microsecond)
			d := xml.NewDecoder(strings.NewReader(`<message xmlns='jabber:client'><received xmlns='urn:xmpp:receipts' id='` + id + `'/></message>`))
			done := make(chan struct{})
			go func() {
				defer close(done)
				defer func() {
					if p := recover(); p != nil {
						select {
						case panicked <- p:
						default:
						}
					}
				}()
				h.HandleMessage(stanza.Message{}, struct {
					xml.TokenReader
					xmlstream.Encoder
				}{TokenReader: d})
			}()
			select {
			case <-done:
			case <-time.After(2 * time.Second):
				select {
				case panicked <- "HandleMessage blocked for 2s (serve loop would be wedged)":
				default:
				}
			}
		}()
		time.Sleep(time.Duration(i%5) * 10 * time.Microsecond)
		cancel()
	}
	wg.Wait()
	select {
	case p := <-panicked:
		t.Errorf("receipt handler failed while the sender was cancelling: %v", p)
	default:
	}
}
